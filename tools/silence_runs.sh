#!/bin/bash
# tools/silence_runs.sh [seeds...] — the quick tier of every check on the unchanged tree, from fresh processes, for several seeds
cd /verif
for seed in ${*:-1 2 3 4 5}; do
  for c in C01 C02 C03 C04 C05 C06 C07 C08 C09 C10 C11 C12 C13 C14 C15 C16 C17; do
    start=$(date +%s)
    out=$(VERIF_SEED=$seed ./check $c --tier quick 2>&1); code=$?
    echo "seed=$seed $c exit=$code $(( $(date +%s) - start ))s $(echo "$out" | grep -c '^VIOLATION') violations | $(echo "$out" | tail -1 | cut -c1-140)"
  done
done
echo SILENCE-DONE
