#!/bin/bash
# tools/kill_matrix.sh [seeded dirs...] — every seeded change against every check (quick tier); writes work/matrix.tsv
cd "${NLV_VERIF:-/verif}"
OUT=${MATRIX_OUT:-work/matrix.tsv}; touch $OUT
DIRS="${*:-$(ls -d seeded/C*-* | sort)}"
for d in $DIRS; do
  grep -q "^$(basename $d)	" $OUT && continue
  res=$(SKIP_TESTS=1 tools/try_mutant.sh $d/patch.diff 2>&1)
  caught=$(echo "$res" | grep "^caught by:" | sed 's/caught by://')
  echo -e "$(basename $d)\t$caught" | tee -a $OUT
  echo "$res" | grep -E "^C[0-9]+: VIOLATION" | sed "s/^/  $(basename $d) /" >> work/matrix-detail.log
done
