#!/bin/bash
# tools/try_mutant.sh <patch.diff> [check ids...]   (default: all 17)
# Applies a seeded change to /repo, runs the repository's own tests (guard off) and the
# quick tier of the given checks against it, prints which checks raise a VIOLATION, and
# restores /repo and the evidence files of the checks it ran (as committed). Never leaves the patch applied.
set -u
PATCH="$(readlink -f "$1")"; shift
# NLV_REPO / NLV_VERIF: a scratch worktree of /repo and a scratch copy of /verif whose harness depends on it (tools/matrix_copy.sh)
REPO="${NLV_REPO:-/repo}"; VERIF="${NLV_VERIF:-/verif}"
CHECKS="${*:-C01 C02 C03 C04 C05 C06 C07 C08 C09 C10 C11 C12 C13 C14 C15 C16 C17}"
cd "$REPO" || exit 2
if [ -n "$(git status --porcelain --untracked-files=no)" ]; then echo "$REPO is not clean"; exit 2; fi
# the evidence files a check writes while a seeded change is applied describe the changed tree: they are put back as committed
trap 'git -C "$REPO" checkout -- . >/dev/null 2>&1; for c in $CHECKS; do git -C "$VERIF" checkout -- "evidence/$c.json" >/dev/null 2>&1; done' EXIT
git apply "$PATCH" || { echo "patch does not apply"; exit 2; }
if [ "${SKIP_TESTS:-0}" != "1" ]; then
  if cargo test --workspace --no-fail-fast --offline >/tmp/try_mutant_tests.log 2>&1; then echo "repo tests: pass"; else echo "repo tests: FAIL"; grep -E "^test .* FAILED|panicked" /tmp/try_mutant_tests.log | head -5; fi
fi
CAUGHT=""
for c in $CHECKS; do
  start=$(date +%s)
  out=$(cd "$VERIF" && timeout 900 ./check "$c" --tier quick 2>&1)
  code=$?
  secs=$(( $(date +%s) - start ))
  if echo "$out" | grep -q "^VIOLATION"; then
    cls=$(echo "$out" | grep -m3 "driver=" | sed 's/^ *//' | tr '\n' ';')
    echo "$c: VIOLATION (${secs}s) $cls"
    CAUGHT="$CAUGHT $c"
  else
    if [ $code -eq 124 ]; then echo "$c: timeout (${secs}s)"; else echo "$c: silent (exit $code, ${secs}s)"; fi
  fi
done
echo "caught by:${CAUGHT:- none}"
