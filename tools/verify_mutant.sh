#!/bin/bash
# tools/verify_mutant.sh <dir> <k>  — confirms in the scratch worktree /tmp/wt-verify that mutant k of <dir>
# compiles, passes the repository's tests, and that its demonstration differs with / without the patch.
# The scratch worktree is not kept: create it first with `git -C /repo worktree add --detach /tmp/wt-verify HEAD`
# and remove it afterwards with `git -C /repo worktree remove --force /tmp/wt-verify`.
D="$1"; K="$2"; WT=/tmp/wt-verify
cd $WT || { echo "create the scratch worktree first (see the comment in this script)"; exit 2; }
git checkout -q -- . ; rm -f tests/demo*.rs
run_demo() { # prints demo output
  if [ -f "$D/demo$K.nl" ]; then
    local prof="$1"
    if [ "$prof" = release ]; then cargo build --release --offline -q 2>/dev/null; timeout 120 ./target/release/nederlang "$D/demo$K.nl" 2>&1 | tail -30
    else cargo build --offline -q 2>/dev/null; timeout 120 ./target/debug/nederlang "$D/demo$K.nl" 2>&1 | tail -30; fi
    echo "exit=${PIPESTATUS[0]}"
  fi
  if [ -f "$D/demo$K.rs" ]; then
    cp "$D/demo$K.rs" tests/demo$K.rs
    if [ "$1" = release ]; then timeout 600 cargo test --release --offline --test demo$K 2>&1 | grep -E "^test |test result" | head -12
    else timeout 600 cargo test --offline --test demo$K 2>&1 | grep -E "^test |test result" | head -12; fi
    rm -f tests/demo$K.rs
  fi
}
PROF="${3:-debug}"
WITHOUT=$(run_demo $PROF)
git apply "$D/patch$K.diff" || { echo "PATCH DOES NOT APPLY"; exit 1; }
if cargo test --workspace --no-fail-fast --offline >/tmp/verify_tests.log 2>&1; then T="tests pass ($(grep -c '\.\.\. ok' /tmp/verify_tests.log) ok)"; else T="TESTS FAIL"; fi
WITH=$(run_demo $PROF)
git checkout -q -- . ; rm -f tests/demo*.rs
if [ "$WITH" != "$WITHOUT" ]; then DIFF="demo differs"; else DIFF="DEMO SAME"; fi
echo "$(basename $D) mutant $K: $T; $DIFF"
if [ "${VERBOSE:-0}" = 1 ]; then echo "--- without:"; echo "$WITHOUT" | head -12; echo "--- with:"; echo "$WITH" | head -12; fi
