#!/bin/bash
# tools/run_fuzz.sh <target> <runs> [max_len]   — one pinned libFuzzer campaign (cargo-fuzz, ASan, debug assertions on)
# The semantic oracle is inside the target; a violation is written as a replay file and printed as a VIOLATION line.
# exit 0 = no violation, 1 = VIOLATION printed, 2 = the campaign could not run
set -u
T="$1"; RUNS="$2"; MAXLEN="${3:-1024}"
SEED="${VERIF_SEED:-1}"
cd /verif/fuzz || exit 2
export CARGO_NET_OFFLINE=true
# leaks of the harness itself (e.g. constants of bytecode that is only verified) are not findings
export ASAN_OPTIONS=detect_leaks=0
CORPUS=/verif/work/fuzz-corpus/$T-$$
rm -rf "$CORPUS"; mkdir -p "$CORPUS" /verif/work
# seeds: the repository's examples (text targets) — the structured targets start from an empty corpus plus a few random tapes
case "$T" in
  fz_text) cp /repo/examples/*.nl "$CORPUS"/ 2>/dev/null ;;
  *) for i in 1 2 3 4 5 6 7 8; do head -c $((64*i)) /dev/zero | tr '\0' "\\$(printf '%03o' $((i*29)))" > "$CORPUS/seed$i"; done ;;
esac
LOG=/verif/work/fuzz-$T.log
# the structured target keeps memory safety observable through the hooks (shadow heap, probes) and is an order of magnitude faster without ASan
SAN=""; [ "$T" = fz_prog ] && SAN="--sanitizer none"
if ! cargo +nightly fuzz build --fuzz-dir . $SAN "$T" >"$LOG.build" 2>&1; then tail -20 "$LOG.build" >&2; echo "run_fuzz: build failed" >&2; exit 2; fi
cargo +nightly fuzz run --fuzz-dir . $SAN "$T" "$CORPUS" -- -runs="$RUNS" -seed="$SEED" -max_len="$MAXLEN" -len_control=0 -timeout=60 -detect_leaks=0 -rss_limit_mb=8000 -artifact_prefix=/verif/work/fuzz-artifact-$T- >"$LOG" 2>&1
code=$?
rm -rf "$CORPUS"
if grep -q "^VIOLATION" "$LOG"; then grep -A4 "^VIOLATION" "$LOG" | head -12; exit 1; fi
if [ $code -ne 0 ]; then
  # a crash that is not an oracle violation (sanitizer report, timeout of a single input, out of memory)
  if grep -qE "ERROR: AddressSanitizer|ERROR: libFuzzer: deadly signal|ERROR: libFuzzer: timeout" "$LOG"; then
    art=$(grep -oE "/verif/work/fuzz-artifact-$T-[a-z]+-[0-9a-f]+" "$LOG" | tail -1)
    echo "VIOLATION property=${4:-C05} replay=$art"
    grep -E "ERROR:|SUMMARY" "$LOG" | head -3
    exit 1
  fi
  tail -5 "$LOG" >&2; echo "run_fuzz: campaign ended with code $code (inconclusive)" >&2; exit 2
fi
grep -E "^Done|DONE" "$LOG" | tail -2
exit 0
