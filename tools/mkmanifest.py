#!/usr/bin/env python3
"""Writes /verif/MANIFEST.json from the table below (kept next to the checks so that the
manifest never drifts from what ./check supports)."""
import json, os, subprocess
HERE = os.path.dirname(os.path.dirname(os.path.abspath(__file__)))
props = [json.loads(l) for l in open(os.path.join(HERE, 'properties.jsonl'))]

CHECKS = {
 "C01": dict(cat="exploration", ref="5.1", technique="differential property-based testing against a definitional reference interpreter (proptest choice tapes, type-directed generator, shrinking + AST minimisation)",
   text="generated programs over the whole grammar are evaluated by nederlang::eval and by an AST-walking reference interpreter written from the README; value graph (with sharing), output and error kind must agree",
   note="trusted: harness/src/refint.rs (the specification) and the exclusion rules U1-U21 of DESIGN.md 4.3; exploration never proves absence"),
 "C06": dict(cat="exploration", ref="5.6", technique="exhaustive enumeration of a boundary lattice + property-based testing against an i128 / IEEE / code-point oracle",
   text="all pairs of the 357-value integer boundary lattice x 11 operators x 3 syntactic forms (exhaustive), plus generated 61-bit, float and string pairs and the complete 7x7 type cross product, under the checked and the release-like build profile",
   note="trusted: i128 arithmetic and host IEEE-754 as oracle; U6 (kind of error not fixed), U11 (ordering of null/bool masked)"),
 "C07": dict(cat="exploration", ref="5.7", technique="round-trip property (tree -> text -> tree) over exhaustively enumerated and proptest-generated trees and layouts",
   text="every expression tree with <=3 binary operators and every full depth-3 tree with one operator per level (exhaustive), plus generated statement-level trees, printed with minimal parentheses and under random layout; Debug(parse(text)) must equal the tree",
   note="trusted: the harness printer implementing the documented precedence table; U7 (prefix operators always parenthesised), U18 (parser restrictions respected)"),
 "C08": dict(cat="exploration", ref="5.8", technique="round-trip property (tokens -> text -> tokens, raw -> literal -> decoded) with exhaustive enumeration of short string contents",
   text="generated token sequences over the whole vocabulary with every separator choice maximal munch allows must lex back to exactly themselves; all 22 621 string contents of <=4 raw units must decode as documented; illegal characters / unterminated strings must be rejected, not truncated",
   note="trusted: the harness's separator-necessity predicate (derived from the token definitions) and decode function D"),
 "C15": dict(cat="exploration", ref="5.15", technique="property-based testing: round-trip + equality oracle over proptest-generated and exhaustively enumerated values",
   text="round trip (value -> word -> value) and pairwise equality against a structural oracle over generated values; the int lattice, the descriptor boundary grid and the 200x200 equality matrix are enumerated completely",
   note="trusted: the harness's value specification type and its equality; arrays compared only with non-arrays (U11)"),
}
hooks_commits = subprocess.run(["git","-C","/repo","log","--format=%h %s"],capture_output=True,text=True).stdout.splitlines()
hook_ids = [l.split()[0] for l in hooks_commits if "verif hook" in l]
checks = []
for pid, c in CHECKS.items():
    checks.append({
        "property_id": pid,
        "quick_cmd": f"./check {pid} --tier quick",
        "thorough_cmd": f"./check {pid} --tier thorough",
        "evidence_file": f"evidence/{pid}.json",
        "replay_cmd_template": f"./check {pid} --replay {{path}}",
        "engine": "nlv",
        "level_claimed": {"category": c["cat"], "text": c["text"], "design_ref": c["ref"]},
        "level_note": c["note"],
        "technique": c["technique"],
    })
m = {
 "version": 1,
 "setup_cmd": "cd /verif/harness && CARGO_NET_OFFLINE=true cargo build --offline --profile checked && CARGO_NET_OFFLINE=true cargo build --offline --profile fast",
 "hooks": {"guard": "cargo feature `verif` of the nederlang crate (off by default)",
           "enable": "the harness crate depends on nederlang = { path = \"/repo\", features = [\"verif\"] }; cargo rebuilds it from /repo's working tree on every ./check",
           "baseline_off_cmd": "cd /repo && cargo test --workspace --no-fail-fast --offline",
           "source_commits": hook_ids[::-1],
           "add_only": True},
 "engines": [{"name": "nlv", "path": "harness/", "serves_properties": sorted(CHECKS),
              "kind_free_text": "Rust binary: proptest-driven choice tapes (seeded, shrinking, AST minimisation), complete enumerations of the finite spaces the properties name, reference interpreter, in-process execution of nederlang under catch_unwind with the verif hooks (print capture, instruction budget, VM probes, shadow heap)"}],
 "checks": checks,
 "not_applicable": [{"property_id": p["id"], "reason": "check not built yet (construction in progress, see DESIGN.md Appendix C)"} for p in props if p["id"] not in CHECKS],
 "notes": "exit 0 = held; exit 1 = VIOLATION line; exit 2 = machinery failure. VERIF_SEED / VERIF_TIER are honoured. Known findings: known-findings.txt.",
}
json.dump(m, open(os.path.join(HERE, 'MANIFEST.json'), 'w'), indent=1)
print("checks:", sorted(CHECKS))
