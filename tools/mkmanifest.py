#!/usr/bin/env python3
"""Writes /verif/MANIFEST.json from the table below (kept next to the checks so that the
manifest never drifts from what ./check supports)."""
import json, os, subprocess
HERE = os.path.dirname(os.path.dirname(os.path.abspath(__file__)))
props = [json.loads(l) for l in open(os.path.join(HERE, 'properties.jsonl'))]

CHECKS = {
 "C01": dict(cat="exploration", ref="5.1", technique="differential property-based testing against a definitional reference interpreter (proptest choice tapes, type-directed generator, shrinking + AST minimisation)",
   text="generated programs over the whole grammar are evaluated by nederlang::eval and by an AST-walking reference interpreter written from the README; value graph (with sharing), output and error kind must agree; a share of the programs is printed under generated layouts (sugar, comments, optional separators), and a text that the parser reads as another tree is judged against the tree it was printed from instead of being discarded; about 90 programs that are large in one dimension (thousands of names, constants, statements, long jumps, calls made far into the code) and the repository's own programs against the same oracle; the command-line program given a file must write what the library evaluates",
   note="trusted: harness/src/refint.rs (the specification) and the exclusion rules U1-U21 of DESIGN.md 4.3; exploration never proves absence"),
 "C02": dict(cat="exploration", ref="5.2", technique="validity predicate over compiler output (bytecode verifier: abstract interpretation of stack heights on all CFG paths) on generated, mutated and random inputs + probed execution",
   text="every generated / mutated / random input that compiles is checked by a static bytecode verifier on ALL paths (decode, code units, stack-height intervals, jump targets, unit disjointness, index ranges) and then run with probes at every unchecked VM access; the verifier itself is self-tested against 18 hand-assembled bad bytecodes on every run; generated sessions on one retained compiler and machine: every line's code verified the same way and run under the probes",
   note="trusted: the stack-effect table of DESIGN.md Appendix B and the verifier (self-tested); exploration over generated inputs, not a proof over all programs"),
 "C03": dict(cat="exploration", ref="5.3", technique="model-based stateful testing of the collector (operation histories vs reachability model, short histories enumerated exhaustively) + differential testing of allocating programs under a shadow heap",
   text="allocating programs run under a shadow heap that checks every dereference and quarantines freed blocks, with collector pre/post-conditions evaluated at every cycle and the result compared with the reference interpreter; collector histories (all of length <=4/5 over 3 objects, random up to 40 ops over 8 objects) against a reachability model; heap values pending at the bottom of the stack while recursions run up to and past the stack limit",
   note="trusted: shadow heap hook H5 as ground truth, the reachability model; handed-over objects are roots of later cycles (as in every execution of the VM)"),
 "C04": dict(cat="fault_enumeration", ref="5.4", technique="fault injection at every instruction boundary of generated runs + heap ledger audit under a shadow heap; stateful collector histories with a reachability model",
   text="each generated allocating program is run to completion and then aborted after k instructions for every k (long runs: 2000 points); after each run the ledger must balance: result live, every other object freed exactly once, nothing unreachable kept by a cycle; generated sessions on one retained compiler and machine with the ledger audited over the whole life of the machine; programs with up to 140 000 objects alive at a collection",
   note="trusted: hook H2 injects the error on the same exit path as a run-time type error; shadow heap H5"),
 "C05": dict(cat="exploration", ref="5.5", technique="robustness fuzzing with a totality oracle: generated token sequences, token edits, exhaustive truncations, noise, directed boundary corpus; supervisor process turns dead or hanging workers into findings",
   text="any input must yield a value or one of five error kinds: random token sequences, edits and complete truncations of the repository's programs, noise, ~250 directed boundary programs and deep nesting on an 8 MB stack; panics, hook events, dead processes and non-terminating front ends are violations; inputs that are large in one dimension (about 150 scale inputs: 3·10^5 blanks / statements / elements, 7·10^4 names and constants, 2·10^5-node lists at collections, printed, returned) on an 8 MB stack; the whole driver also in an unoptimised build of the interpreter; the command-line program built from the tree, given generated inputs, session lines and non-UTF-8 bytes as a file and through the prompt, must end in an orderly way and end when its input ends",
   note="trusted: catch_unwind + supervisor/watchdog classification; the VM budget counts as a loop the program spells out"),
 "C06": dict(cat="exploration", ref="5.6", technique="exhaustive enumeration of a boundary lattice + property-based testing against an i128 / IEEE / code-point oracle",
   text="all pairs of the 357-value integer boundary lattice x 11 operators x 3 syntactic forms (exhaustive), plus generated 61-bit, float and string pairs and the complete 7x7 type cross product, under the checked and the release-like build profile; the cross product in ten syntactic forms (globals, parameters, locals, literals on either side), and operands that are one and the same object (NaN, signed zeros, texts); the neutral literals 0 and 1 against every non-int operand",
   note="trusted: i128 arithmetic and host IEEE-754 as oracle; U6 (kind of error not fixed), U11 (ordering of null/bool masked)"),
 "C07": dict(cat="exploration", ref="5.7", technique="round-trip property (tree -> text -> tree) over exhaustively enumerated and proptest-generated trees and layouts",
   text="every expression tree with <=3 binary operators and every full depth-3 tree with one operator per level (exhaustive), plus generated statement-level trees, printed with minimal parentheses and under random layout; Debug(parse(text)) must equal the tree; wide trees (2 ... 5000 siblings in every kind of list)",
   note="trusted: the harness printer implementing the documented precedence table; U7 (prefix operators always parenthesised), U18 (parser restrictions respected)"),
 "C08": dict(cat="exploration", ref="5.8", technique="round-trip property (tokens -> text -> tokens, raw -> literal -> decoded) with exhaustive enumeration of short string contents",
   text="generated token sequences over the whole vocabulary with every separator choice maximal munch allows must lex back to exactly themselves; all 22 621 string contents of <=4 raw units must decode as documented; illegal characters / unterminated strings must be rejected, not truncated; all control characters in the nothing-is-dropped grid; literals with every kind of line end inside, given to the command-line program as a file",
   note="trusted: the harness's separator-necessity predicate (derived from the token definitions) and decode function D"),
 "C09": dict(cat="exploration", ref="5.9", technique="differential testing against the reference interpreter + metamorphic relations (consistent renaming, unused shadowing declaration, poisoning with an undeclared name)",
   text="programs of the scopes profile against the reference interpreter; renaming one declaration with exactly its uses and inserting an unused shadowing declaration must not change the observation; replacing any use by an undeclared name must give a ReferenceError before any output; 300 ... 131 073 variables in one table: every name its own variable, or a refusal beyond the machine's limit",
   note="trusted: the reference resolver (static scoping rule of DESIGN.md 4.1); U4/U5 excluded by construction"),
 "C10": dict(cat="exploration", ref="5.10", technique="metamorphic testing (program vs transformed program, no reference interpreter)",
   text="closed programs compared with their variants under T1 (top level into a function), T2 (literal operand into a variable), T3 (mirrored operands), T4 (prepended literals) and random combinations; opcode multisets are measured to show that different implementation choices were actually exercised; T2 replaces any int / float / bool literal in expression position",
   note="trusted: the four transformations are semantics-preserving for closed programs under the README's rules"),
 "C11": dict(cat="exploration", ref="5.11", technique="exhaustive template enumeration + differential testing + metamorphic residue relation (observation independent of the iteration count)",
   text="all chains of nested constructs up to depth 4/5 with every admissible early exit and loop counts {0,1,2,17} against the reference interpreter; random control-flow programs; probe code after loops of 1..200 000 iterations must behave identically; every template also with all constructs in value position; exit-position independence of the value of a loop (implementation against itself)",
   note="trusted: reference interpreter; U8 (loop values masked)."),
 "C12": dict(cat="exploration", ref="5.12", technique="differential property-based testing with a tracing identity around arguments + directed boundary programs",
   text="programs of the calls profile (recursion, functions as values, calls in every expression context, traced argument evaluation order) against the reference interpreter; directed recursion up to depth 70 000 must give the exact value or an error; calls made from up to 280 000 bytes into straight-line code",
   note="trusted: reference interpreter; U3, U15, U17"),
 "C13": dict(cat="exploration", ref="5.13", technique="model-based testing of operation sequences (reference model with shared mutable arrays) + exhaustive index grid + state snapshot at the failing operation",
   text="operation sequences over four variables (literals, aliases, reads, writes, lengte, mutating function, nesting) with the complete index x length grid; result graph incl. sharing must equal the model; after a failing operation the globals must equal the model state before it; literals that are evaluated once per call and text aliases through string()",
   note="trusted: reference interpreter as model; exit-snapshot hook H7; U21"),
 "C14": dict(cat="exploration", ref="5.14", technique="differential testing of every builtin over a value-shape grid + round-trip and idempotence properties + single-pass print oracle",
   text="7 builtins x ~150 value shapes x 0-3 arguments against the reference; int(string(n)) over the lattice, float(string(x)) over generated finite floats, T(T(v)) = T(v); print with generated formats against a single-pass oracle; two calls in one program over values that look alike across types; results changed in place and the same call made again; 2 ... 513 arguments",
   note="trusted: reference interpreter's builtins; host float formatting/parsing; U12/U16/U20 only totality"),
 "C15": dict(cat="exploration", ref="5.15", technique="property-based testing: round-trip + equality oracle over proptest-generated and exhaustively enumerated values",
   text="round trip (value -> word -> value) and pairwise equality against a structural oracle over generated values; the int lattice, the descriptor boundary grid and the 200x200 equality matrix are enumerated completely; arrays that share sub-arrays read back element by element and as text",
   note="trusted: the harness's value specification type and its equality; arrays compared only with non-arrays (U11)"),

 "C16": dict(cat="exploration", ref="5.16", technique="self-differential testing across contexts: fresh process vs. repeated / reordered in one process vs. 16 concurrent threads vs. another build profile",
   text="every program of a generated batch is observed in a fresh process (reference), three times in seeded random orders in one process, >=20 times from 16 threads, and in a fresh process of the release-like build; all observations of a program must be identical",
   note="schedules are exercised by stress only: the harness picks which program a thread runs next, not instruction interleavings (the crate has no synchronisation to interleave on); a regression introducing process-wide state is what this detects"),
 "C17": dict(cat="fault_enumeration", ref="5.17", technique="model-based stateful testing of sessions against the implementation's own single-program semantics; exhaustive enumeration of short sessions; fault injection at every instruction boundary of multi-statement lines",
   text="all sessions of <=3 lines over a 22-line alphabet and generated sessions of up to 13 lines (incl. parse / compile / run-time failing lines and lines cut after k instructions) on one retained compiler+VM; every line must behave like the last line of one program made of the effective earlier lines; a cut sweep enumerates every k for three lines and checks that the completed prefix is a prefix and grows monotonically; relation: after a failing line every later line shows what it shows after a successful line with the same completed assignments; the prompt program itself (src/bin/nederlang.rs) is fed the lines and must write what the library answers",
   note="oracle is nederlang::eval of the concatenation (the property's own definition); U1 for lines ending in declarations; results of lines are not released (as the prompt). One open known finding, KF-C17-DECLNAME (a declaration whose initialiser fails leaves its name declared): printed as KNOWN-FINDING, matched exactly"),
}
hooks_commits = subprocess.run(["git","-C","/repo","log","--format=%h %s"],capture_output=True,text=True).stdout.splitlines()
hook_ids = [l.split()[0] for l in hooks_commits if "verif hook" in l]
checks = []
for pid, c in CHECKS.items():
    checks.append({
        "property_id": pid,
        "quick_cmd": f"./check {pid} --tier quick",
        "thorough_cmd": f"./check {pid} --tier thorough",
        "evidence_file": f"evidence/{pid}.json",
        "replay_cmd_template": f"./check {pid} --replay {{path}}",
        "engine": "nlv",
        "level_claimed": {"category": c["cat"], "text": c["text"], "design_ref": c["ref"]},
        "level_note": c["note"],
        "technique": c["technique"],
    })
m = {
 "version": 1,
 "setup_cmd": "cd /verif/harness && CARGO_NET_OFFLINE=true cargo build --offline --profile checked && CARGO_NET_OFFLINE=true cargo build --offline --profile fast && CARGO_NET_OFFLINE=true cargo build --offline --profile plain && CARGO_NET_OFFLINE=true cargo build --offline --manifest-path /repo/Cargo.toml --bin nederlang --target-dir /verif/work/cli-target",
 "hooks": {"guard": "cargo feature `verif` of the nederlang crate (off by default)",
           "enable": "the harness crate depends on nederlang = { path = \"/repo\", features = [\"verif\"] }; cargo rebuilds it from /repo's working tree on every ./check",
           "baseline_off_cmd": "cd /repo && cargo test --workspace --no-fail-fast --offline",
           "source_commits": hook_ids[::-1],
           "add_only": True},
 "engines": [{"name": "nlv", "path": "harness/", "serves_properties": sorted(CHECKS),
              "kind_free_text": "Rust binary: proptest-driven choice tapes (seeded, shrinking, AST minimisation), complete enumerations of the finite spaces the properties name, reference interpreter, in-process execution of nederlang under catch_unwind with the verif hooks (print capture, instruction budget, VM probes, shadow heap)"}],
 "checks": checks,
 "not_applicable": [{"property_id": p["id"], "reason": "check not built yet (construction in progress, see DESIGN.md Appendix C)"} for p in props if p["id"] not in CHECKS],
 "notes": "exit 0 = held; exit 1 = VIOLATION line; exit 2 = machinery failure. VERIF_SEED / VERIF_TIER are honoured. Known findings: known-findings.txt.",
}
json.dump(m, open(os.path.join(HERE, 'MANIFEST.json'), 'w'), indent=1)
print("checks:", sorted(CHECKS))
