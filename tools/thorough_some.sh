#!/bin/bash
# tools/thorough_some.sh <ids...> — the thorough tier of the given checks in turn (unchanged tree); log in work/thorough2.log
cd /verif
for c in "$@"; do
  start=$(date +%s)
  VERIF_SEED=${VERIF_SEED:-1} timeout 7200 ./check $c --tier thorough > work/thorough-$c.out 2>&1
  code=$?
  echo "$c exit=$code $(( $(date +%s) - start ))s $(grep -E "^$c:" work/thorough-$c.out | tail -1)" >> work/thorough2.log
  grep -E "^VIOLATION" -A5 work/thorough-$c.out >> work/thorough2.log
done
echo SOME-DONE >> work/thorough2.log
