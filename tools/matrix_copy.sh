#!/bin/bash
# tools/matrix_copy.sh <dir>  — makes <dir>/repo (a scratch worktree of /repo at HEAD) and <dir>/verif (a copy of /verif whose
# harness depends on that worktree), so that seeded changes can be tried without touching /repo or /verif:
#   NLV_REPO=<dir>/repo NLV_VERIF=<dir>/verif <dir>/verif/tools/kill_matrix.sh
# Remove with: git -C /repo worktree remove --force <dir>/repo; rm -rf <dir>
set -e
D="$(readlink -f "$1")"; mkdir -p "$D"
git -C /repo worktree add --detach "$D/repo" HEAD >/dev/null
rsync -a --exclude harness/target --exclude fuzz/target --exclude work --exclude replays --exclude .git /verif/ "$D/verif/"
sed -i "s|path = \"/repo\"|path = \"$D/repo\"|" "$D/verif/harness/Cargo.toml"
mkdir -p "$D/verif/work"
echo "$D ready"
