#!/usr/bin/env python3
"""Prints the quick-tier cost table of DESIGN.md section 9 from the evidence files of the last run."""
import json, os
HERE = os.path.dirname(os.path.dirname(os.path.abspath(__file__)))
print("| property | tier | evaluations | distinct non-trivial | wall (s) |\n|---|---|---|---|---|")
for i in range(1, 18):
    p = os.path.join(HERE, "evidence", "C%02d.json" % i)
    e = json.load(open(p))
    c = e["coverage"]
    print("| C%02d | %s | %s | %s | %.0f |" % (i, e.get("tier"), f"{c['evaluations']:,}".replace(",", " "), f"{c['distinct_nontrivial']:,}".replace(",", " "), e.get("wall_s", 0)))
