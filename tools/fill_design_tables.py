#!/usr/bin/env python3
"""Fills the tables of DESIGN.md between the MATRIX / COST markers: tools/fill_design_tables.py <matrix.tsv>..."""
import re, subprocess, sys, os
HERE = os.path.dirname(os.path.dirname(os.path.abspath(__file__)))
p = os.path.join(HERE, "DESIGN.md")
s = open(p).read()
if len(sys.argv) > 1:
    t = subprocess.run([sys.executable, os.path.join(HERE, "tools/matrix_table.py")] + sys.argv[1:], capture_output=True, text=True).stdout
    s = re.sub(r"<!-- MATRIX:BEGIN -->.*?<!-- MATRIX:END -->", "<!-- MATRIX:BEGIN -->\n" + t.strip() + "\n<!-- MATRIX:END -->", s, flags=re.S)
t = subprocess.run([sys.executable, os.path.join(HERE, "tools/cost_table.py")], capture_output=True, text=True).stdout
s = re.sub(r"<!-- COST:BEGIN -->.*?<!-- COST:END -->", "<!-- COST:BEGIN -->\n" + t.strip() + "\n<!-- COST:END -->", s, flags=re.S)
open(p, "w").write(s)
