#!/bin/bash
# runs the thorough tier of every check in turn (unchanged tree); log in work/thorough.log
cd /verif
: > work/thorough.log
for c in C15 C14 C08 C06 C13 C17 C03 C04 C09 C10 C11 C12 C16 C07 C02 C05 C01; do
  start=$(date +%s)
  VERIF_SEED=${VERIF_SEED:-1} timeout 7200 ./check $c --tier thorough > work/thorough-$c.out 2>&1
  code=$?
  echo "$c exit=$code $(( $(date +%s) - start ))s $(grep -E "^$c:" work/thorough-$c.out | tail -1)" >> work/thorough.log
  grep -E "^VIOLATION" -A5 work/thorough-$c.out >> work/thorough.log
done
echo ALL-DONE >> work/thorough.log
