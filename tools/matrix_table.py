#!/usr/bin/env python3
"""Prints the kill matrix (DESIGN.md 7.3) as a markdown table from one or more matrix.tsv files."""
import sys
rows = {}
for p in sys.argv[1:]:
    for l in open(p):
        l = l.rstrip("\n")
        if not l.strip():
            continue
        name, _, caught = l.partition("\t")
        rows[name] = caught.split()
checks = ["C%02d" % i for i in range(1, 18)]
print("| change | " + " | ".join(c[1:] for c in checks) + " | own |")
print("|---|" + "---|" * (len(checks) + 1))
own_hits = 0
for name in sorted(rows, key=lambda n: (n[:3], int(n.split("-")[1]))):
    caught = rows[name]
    own = name[:3] in caught
    own_hits += own
    print("| %s | " % name + " | ".join("x" if c in caught else "" for c in checks) + " | %s |" % ("yes" if own else ("sibling" if caught and caught != ["none"] else "NONE")))
print()
print("%d changes; caught by the check of their own property: %d; by a sibling only: %d; by none: %d" % (
    len(rows), own_hits,
    sum(1 for n, c in rows.items() if n[:3] not in c and c and c != ["none"]),
    sum(1 for n, c in rows.items() if not c or c == ["none"])))
