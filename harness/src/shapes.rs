//! Named syntactic predicates used by open known findings (known-findings.txt, field `shape`).
use serde_json::Value;

pub fn shape_matches(shape: &str, case: &Value) -> bool {
    match shape {
        "" | "any" => true,
        // C17: the failing line is a single declaration `stel NAME = …` and a later line mentions NAME
        "failed-declaration-leaves-its-name" => {
            let failing = case.get("failing").and_then(|f| f.as_str()).unwrap_or("");
            let name = match failing.strip_prefix("stel ").and_then(|r| r.split_once(" = ")) {
                Some((n, _)) if !failing.contains(';') && !n.is_empty() && n.chars().all(|c| c.is_alphanumeric() || c == '_') => n.to_string(),
                _ => return false,
            };
            case.get("later")
                .and_then(|l| l.as_array())
                .map(|l| l.iter().filter_map(|x| x.as_str()).any(|line| line.split(|c: char| !(c.is_alphanumeric() || c == '_')).any(|w| w == name)))
                .unwrap_or(false)
        }
        _ => false,
    }
}
