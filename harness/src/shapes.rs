//! Named syntactic predicates used by open known findings (known-findings.txt, field `shape`).
use serde_json::Value;

pub fn shape_matches(shape: &str, case: &Value) -> bool {
    match shape {
        "" | "any" => true,
        _ => {
            let _ = case;
            false
        }
    }
}
