//! Generic tape-driven differential driver shared by C01, C09, C11, C12.
use crate::diff::*;
use crate::gen::*;
use crate::refint::{RefObs, RefOutcome};
use crate::report::*;
use crate::tape::run_tapes;
use serde_json::json;

pub struct DiffCfg {
    pub prop: &'static str,
    pub driver: &'static str,
    pub profile: Profile,
    pub cases: u32,
    pub max_len: usize,
    pub seed: u64,
}

pub fn hex(b: &[u8]) -> String {
    b.iter().map(|x| format!("{x:02x}")).collect()
}

pub fn known_match(known: &[KnownFinding], prop: &str, class: &str, case: &serde_json::Value) -> bool {
    known.iter().any(|k| k.property == prop && k.class == class && crate::shapes::shape_matches(&k.shape, case))
}

fn stats_json(r: &RefObs) -> serde_json::Value {
    json!({"calls": r.stats.calls, "iterations": r.stats.iterations, "features": r.stats.features.iter().collect::<Vec<_>>(), "steps": r.steps})
}

/// Runs `cfg.cases` generated programs through the differential oracle
pub fn run_diff_tapes(r: &mut Report, cfg: &DiffCfg, nontrivial: &dyn Fn(&RefObs) -> bool, known: &[KnownFinding]) {
    let prop = cfg.prop;
    let profile = cfg.profile.clone();
    let fail = run_tapes(cfg.seed, cfg.cases, cfg.max_len, |tape, shrinking| {
        let (prog, fault) = gen_program(tape, &profile);
        let started = std::time::Instant::now();
        let out = diff_program(&prog);
        if started.elapsed().as_secs_f64() > 1.5 && std::env::var("NLV_SLOW").is_ok() {
            // diagnostics only: never part of a verdict
            eprintln!("SLOW {:.1}s {}", started.elapsed().as_secs_f64(), out.src);
        }
        if !shrinking {
            r.eval();
            if let Some(f) = fault {
                r.count(&format!("fault:{f}"));
            }
            if let Some(ro) = &out.refobs {
                match &ro.outcome {
                    RefOutcome::Value(_) => r.count("ref:value"),
                    RefOutcome::Error(k) => r.count(&format!("ref:error:{}", k.name())),
                    RefOutcome::Unspecified(_) => r.count("ref:unspecified"),
                    RefOutcome::Budget => r.count("ref:budget"),
                }
                if !ro.output.is_empty() {
                    r.count("with-output");
                }
                for f in ro.stats.features.iter() {
                    r.count(&format!("feature:{f}"));
                }
            }
        }
        match &out.verdict {
            Verdict::Agree => {
                if !shrinking {
                    if let Some(ro) = &out.refobs {
                        if nontrivial(ro) {
                            r.nontrivial(&out.src);
                            if r.nontrivial.len() % 1500 == 1 {
                                r.sample(json!({"src": out.src, "stats": stats_json(ro), "outcome": format!("{:?}", ro.outcome)}));
                            }
                        }
                    }
                }
                Ok(())
            }
            Verdict::Discard(why) => {
                if !shrinking {
                    let key = why.split(':').next().unwrap_or(why).to_string();
                    r.count(&format!("discard:{key}"));
                    if why.starts_with("unspecified") {
                        r.count(&format!("discard-rule:{}", why));
                    }
                    if let Ok(pat) = std::env::var("NLV_DUMP_DISCARD") {
                        if why.contains(&pat) {
                            eprintln!("DISCARD[{why}] {}", out.src);
                        }
                    }
                }
                Ok(())
            }
            Verdict::Violation { class, .. } => {
                let case = json!({"src": out.src});
                if known_match(known, prop, class, &case) {
                    if !shrinking {
                        r.count("excluded_by_known_finding");
                    }
                    Ok(())
                } else {
                    Err(class.clone())
                }
            }
        }
    });
    if let Some((tape, _)) = fail {
        let (prog, _) = gen_program(&tape, &profile);
        let out = diff_program(&prog);
        if let Verdict::Violation { class, .. } = out.verdict {
            // AST-level minimisation behind proptest's tape shrinking
            let cls = class.clone();
            let small = crate::minimize::minimize(
                &prog,
                &mut |p| matches!(diff_program(p).verdict, Verdict::Violation { class: c, .. } if c == cls),
                3000,
            );
            let out = diff_program(&small);
            if let Verdict::Violation { class, expected, observed } = out.verdict {
                r.violation(Violation {
                    property: prop.into(),
                    driver: cfg.driver.into(),
                    class,
                    case: json!({"src": out.src, "tape": hex(&tape), "profile": profile.name}),
                    expected,
                    observed,
                });
            }
        }
    }
}

/// Replays a `{"src": …}` case against the reference interpreter
pub fn replay_src(prop: &str, case: &serde_json::Value) -> Option<Violation> {
    let src = case.get("src")?.as_str()?;
    match diff_text(src) {
        Ok(out) => match out.verdict {
            Verdict::Violation { class, expected, observed } => Some(Violation {
                property: prop.into(),
                driver: "replay".into(),
                class,
                case: case.clone(),
                expected,
                observed,
            }),
            _ => None,
        },
        Err(_) => None,
    }
}
