//! Generic tape-driven differential driver shared by C01, C09, C11, C12.
use crate::ast::BlockStmt;
use crate::diff::*;
use crate::gen::*;
use crate::refint::{RefObs, RefOutcome};
use crate::report::*;
use crate::tape::run_tapes;
use serde_json::json;

pub struct DiffCfg {
    pub prop: &'static str,
    pub driver: &'static str,
    pub profile: Profile,
    pub cases: u32,
    pub max_len: usize,
    pub seed: u64,
    /// print a share of the programs under a generated layout (line breaks, comments, optional separators, redundant
    /// parentheses, `a op= e` sugar, `anders als`) instead of canonically, driven by the tape bytes the generator left
    pub layout: bool,
}

/// the text of a program: canonical, or (when the driver varies layouts and the first unused tape byte says so) laid out
/// by the remaining tape bytes
fn render(prog: &BlockStmt, layout_tape: Option<&[u8]>) -> String {
    match layout_tape {
        Some(lt) => crate::printer::print_layout(prog, &mut crate::tape::Tape::new(lt)).0,
        None => crate::printer::print_canonical(prog),
    }
}

fn layout_part(cfg: &DiffCfg, tape: &[u8], used: usize) -> Option<Vec<u8>> {
    if cfg.layout && tape.get(used).map(|b| *b < 96).unwrap_or(false) {
        Some(tape[used + 1..].to_vec())
    } else {
        None
    }
}

pub fn hex(b: &[u8]) -> String {
    b.iter().map(|x| format!("{x:02x}")).collect()
}

pub fn known_match(known: &[KnownFinding], prop: &str, class: &str, case: &serde_json::Value) -> bool {
    known.iter().any(|k| k.property == prop && k.class == class && crate::shapes::shape_matches(&k.shape, case))
}

fn stats_json(r: &RefObs) -> serde_json::Value {
    json!({"calls": r.stats.calls, "iterations": r.stats.iterations, "features": r.stats.features.iter().collect::<Vec<_>>(), "steps": r.steps})
}

/// Runs `cfg.cases` generated programs through the differential oracle
pub fn run_diff_tapes(r: &mut Report, cfg: &DiffCfg, nontrivial: &dyn Fn(&RefObs) -> bool, known: &[KnownFinding]) {
    let prop = cfg.prop;
    let profile = cfg.profile.clone();
    let fail = run_tapes(cfg.seed, cfg.cases, cfg.max_len, |tape, shrinking| {
        let (prog, fault, used) = gen_program_used(tape, &profile);
        let started = std::time::Instant::now();
        let lt = layout_part(cfg, tape, used);
        let out = diff_source(&prog, render(&prog, lt.as_deref()));
        if !shrinking {
            if lt.is_some() {
                r.count("text:generated-layout");
            }
            if out.tree_differs {
                r.count("text:parsed-as-another-tree");
            }
        }
        if started.elapsed().as_secs_f64() > 1.5 && std::env::var("NLV_SLOW").is_ok() {
            // diagnostics only: never part of a verdict
            eprintln!("SLOW {:.1}s {}", started.elapsed().as_secs_f64(), out.src);
        }
        if !shrinking {
            r.eval();
            if let Some(f) = fault {
                r.count(&format!("fault:{f}"));
            }
            if let Some(ro) = &out.refobs {
                match &ro.outcome {
                    RefOutcome::Value(_) => r.count("ref:value"),
                    RefOutcome::Error(k) => r.count(&format!("ref:error:{}", k.name())),
                    RefOutcome::Unspecified(_) => r.count("ref:unspecified"),
                    RefOutcome::Budget => r.count("ref:budget"),
                }
                if !ro.output.is_empty() {
                    r.count("with-output");
                }
                for f in ro.stats.features.iter() {
                    r.count(&format!("feature:{f}"));
                }
            }
        }
        match &out.verdict {
            Verdict::Agree => {
                if !shrinking {
                    if let Some(ro) = &out.refobs {
                        if nontrivial(ro) {
                            r.nontrivial(&out.src);
                            if r.nontrivial.len() % 1500 == 1 {
                                r.sample(json!({"src": out.src, "stats": stats_json(ro), "outcome": format!("{:?}", ro.outcome)}));
                            }
                        }
                    }
                }
                Ok(())
            }
            Verdict::Discard(why) => {
                if !shrinking {
                    let key = why.split(':').next().unwrap_or(why).to_string();
                    r.count(&format!("discard:{key}"));
                    if why.starts_with("unspecified") {
                        r.count(&format!("discard-rule:{}", why));
                    }
                    if let Ok(pat) = std::env::var("NLV_DUMP_DISCARD") {
                        if why.contains(&pat) {
                            eprintln!("DISCARD[{why}] {}", out.src);
                        }
                    }
                }
                Ok(())
            }
            Verdict::Violation { class, .. } => {
                let case = json!({"src": out.src});
                if known_match(known, prop, class, &case) {
                    if !shrinking {
                        r.count("excluded_by_known_finding");
                    }
                    Ok(())
                } else {
                    Err(class.clone())
                }
            }
        }
    });
    if let Some((tape, _)) = fail {
        let (prog, _, used) = gen_program_used(&tape, &profile);
        let lt = layout_part(cfg, &tape, used);
        let first = diff_source(&prog, render(&prog, lt.as_deref()));
        if let Verdict::Violation { class, .. } = &first.verdict {
            // AST-level minimisation behind proptest's tape shrinking (same way of printing)
            let cls = class.clone();
            let small = crate::minimize::minimize(
                &prog,
                &mut |p| matches!(diff_source(p, render(p, lt.as_deref())).verdict, Verdict::Violation { class: c, .. } if c == cls),
                3000,
            );
            let out = diff_source(&small, render(&small, lt.as_deref()));
            // (the minimised program is reported only if it still fails; otherwise the one the search found)
            let (out, tree) = if matches!(out.verdict, Verdict::Violation { .. }) { (out, format!("{small:?}")) } else { (first, format!("{prog:?}")) };
            if let Verdict::Violation { class, expected, observed } = out.verdict {
                r.violation(Violation {
                    property: prop.into(),
                    driver: cfg.driver.into(),
                    class,
                    case: json!({"src": out.src, "tree": tree, "tape": hex(&tape), "profile": profile.name}),
                    expected,
                    observed,
                });
            }
        }
    }
}

/// Replays a `{"src": …}` case against the reference interpreter
pub fn replay_src(prop: &str, case: &serde_json::Value) -> Option<Violation> {
    let src = case.get("src")?.as_str()?;
    // the tree the text was printed from, if recorded: the text is judged against it (and not against whatever the
    // implementation's parser makes of the text now)
    let intended = case.get("tree").and_then(|t| t.as_str()).and_then(|t| crate::dbgparse::parse_debug_block(t).ok());
    let run = match intended {
        Some(prog) => Ok(diff_source(&prog, src.to_string())),
        None => diff_text(src),
    };
    match run {
        Ok(out) => match out.verdict {
            Verdict::Violation { class, expected, observed } => Some(Violation {
                property: prop.into(),
                driver: "replay".into(),
                class,
                case: case.clone(),
                expected,
                observed,
            }),
            _ => None,
        },
        Err(_) => None,
    }
}
