//! The harness's own syntax tree. Type, variant and field names mirror nederlang's private
//! `ast` module exactly, so `format!("{:?}", tree)` of the two are comparable as text.
#![allow(dead_code)]

#[derive(PartialEq, Debug, Clone)]
pub enum Stmt {
    Let(String, Expr),
    Return(Expr),
    Expr(Expr),
    Block(BlockStmt),
    Break,
    Continue,
}

pub type BlockStmt = Vec<Stmt>;

#[derive(PartialEq, Debug, Clone)]
pub enum Expr {
    Infix {
        left: Box<Expr>,
        operator: Operator,
        right: Box<Expr>,
    },
    Prefix {
        operator: Operator,
        right: Box<Expr>,
    },
    Int {
        value: isize,
    },
    Float {
        value: f64,
    },
    Bool {
        value: bool,
    },
    If {
        condition: Box<Expr>,
        consequence: BlockStmt,
        alternative: Option<BlockStmt>,
    },
    Identifier(String),
    Function {
        name: String,
        parameters: Vec<String>,
        body: BlockStmt,
    },
    Call {
        left: Box<Expr>,
        arguments: Vec<Expr>,
    },
    Assign {
        left: Box<Expr>,
        right: Box<Expr>,
    },
    String {
        value: String,
    },
    Array {
        values: Vec<Expr>,
    },
    Index {
        left: Box<Expr>,
        index: Box<Expr>,
    },
    While {
        condition: Box<Expr>,
        body: BlockStmt,
    },
}

#[derive(PartialEq, Eq, Debug, Clone, Copy, Hash)]
pub enum Operator {
    Add,
    Subtract,
    Multiply,
    Divide,
    Gt,
    Gte,
    Lt,
    Lte,
    Eq,
    Neq,
    Not,
    Negate,
    And,
    Or,
    Modulo,
    Assign,
}

pub const BINOPS: [Operator; 13] = [
    Operator::Add,
    Operator::Subtract,
    Operator::Multiply,
    Operator::Divide,
    Operator::Modulo,
    Operator::Lt,
    Operator::Lte,
    Operator::Gt,
    Operator::Gte,
    Operator::Eq,
    Operator::Neq,
    Operator::And,
    Operator::Or,
];

impl Operator {
    pub fn text(&self) -> &'static str {
        match self {
            Operator::Add => "+",
            Operator::Subtract | Operator::Negate => "-",
            Operator::Multiply => "*",
            Operator::Divide => "/",
            Operator::Modulo => "%",
            Operator::Gt => ">",
            Operator::Gte => ">=",
            Operator::Lt => "<",
            Operator::Lte => "<=",
            Operator::Eq => "==",
            Operator::Neq => "!=",
            Operator::Not => "!",
            Operator::And => "&&",
            Operator::Or => "||",
            Operator::Assign => "=",
        }
    }
    /// binding level of a binary operator as documented (Appendix A)
    pub fn level(&self) -> u8 {
        match self {
            Operator::Assign => 1,
            Operator::And | Operator::Or => 2,
            Operator::Eq | Operator::Neq => 3,
            Operator::Lt | Operator::Lte | Operator::Gt | Operator::Gte => 4,
            Operator::Add | Operator::Subtract => 5,
            Operator::Multiply | Operator::Divide | Operator::Modulo => 6,
            Operator::Not | Operator::Negate => 7,
        }
    }
    pub fn from_name(s: &str) -> Option<Operator> {
        Some(match s {
            "Add" => Operator::Add,
            "Subtract" => Operator::Subtract,
            "Multiply" => Operator::Multiply,
            "Divide" => Operator::Divide,
            "Gt" => Operator::Gt,
            "Gte" => Operator::Gte,
            "Lt" => Operator::Lt,
            "Lte" => Operator::Lte,
            "Eq" => Operator::Eq,
            "Neq" => Operator::Neq,
            "Not" => Operator::Not,
            "Negate" => Operator::Negate,
            "And" => Operator::And,
            "Or" => Operator::Or,
            "Modulo" => Operator::Modulo,
            "Assign" => Operator::Assign,
            _ => return None,
        })
    }
}

// ----- constructors used by generators -----
pub fn int(v: i64) -> Expr {
    Expr::Int { value: v as isize }
}
pub fn boolean(v: bool) -> Expr {
    Expr::Bool { value: v }
}
pub fn float(v: f64) -> Expr {
    Expr::Float { value: v }
}
pub fn string(v: &str) -> Expr {
    Expr::String { value: v.to_string() }
}
pub fn ident(n: &str) -> Expr {
    Expr::Identifier(n.to_string())
}
pub fn infix(l: Expr, op: Operator, r: Expr) -> Expr {
    Expr::Infix { left: Box::new(l), operator: op, right: Box::new(r) }
}
/// prefix minus: the parser produces Operator::Subtract for it
pub fn neg(e: Expr) -> Expr {
    Expr::Prefix { operator: Operator::Subtract, right: Box::new(e) }
}
pub fn not(e: Expr) -> Expr {
    Expr::Prefix { operator: Operator::Not, right: Box::new(e) }
}
pub fn call(f: Expr, args: Vec<Expr>) -> Expr {
    Expr::Call { left: Box::new(f), arguments: args }
}
pub fn calln(f: &str, args: Vec<Expr>) -> Expr {
    call(ident(f), args)
}
pub fn assign(l: Expr, r: Expr) -> Expr {
    Expr::Assign { left: Box::new(l), right: Box::new(r) }
}
pub fn index(l: Expr, i: Expr) -> Expr {
    Expr::Index { left: Box::new(l), index: Box::new(i) }
}
pub fn array(v: Vec<Expr>) -> Expr {
    Expr::Array { values: v }
}
pub fn iff(c: Expr, t: BlockStmt, e: Option<BlockStmt>) -> Expr {
    Expr::If { condition: Box::new(c), consequence: t, alternative: e }
}
pub fn whil(c: Expr, b: BlockStmt) -> Expr {
    Expr::While { condition: Box::new(c), body: b }
}
pub fn func(name: &str, params: &[&str], body: BlockStmt) -> Expr {
    Expr::Function { name: name.to_string(), parameters: params.iter().map(|s| s.to_string()).collect(), body }
}
pub fn let_(n: &str, e: Expr) -> Stmt {
    Stmt::Let(n.to_string(), e)
}
pub fn es(e: Expr) -> Stmt {
    Stmt::Expr(e)
}
/// an integer literal of any sign as an expression (negatives are prefix expressions; the
/// smallest integer has no literal form)
pub fn int_expr(v: i64) -> Expr {
    if v >= 0 {
        int(v)
    } else if v == crate::lattice::MIN_INT {
        infix(neg(int(crate::lattice::MAX_INT)), Operator::Subtract, int(1))
    } else {
        neg(int(-v))
    }
}

/// number of nodes (statements + expressions)
pub fn size_block(b: &BlockStmt) -> usize {
    b.iter().map(size_stmt).sum()
}
pub fn size_stmt(s: &Stmt) -> usize {
    1 + match s {
        Stmt::Let(_, e) | Stmt::Return(e) | Stmt::Expr(e) => size_expr(e),
        Stmt::Block(b) => size_block(b),
        Stmt::Break | Stmt::Continue => 0,
    }
}
pub fn size_expr(e: &Expr) -> usize {
    1 + match e {
        Expr::Infix { left, right, .. } => size_expr(left) + size_expr(right),
        Expr::Prefix { right, .. } => size_expr(right),
        Expr::If { condition, consequence, alternative } => {
            size_expr(condition) + size_block(consequence) + alternative.as_ref().map(size_block).unwrap_or(0)
        }
        Expr::Function { body, .. } => size_block(body),
        Expr::Call { left, arguments } => size_expr(left) + arguments.iter().map(size_expr).sum::<usize>(),
        Expr::Assign { left, right } => size_expr(left) + size_expr(right),
        Expr::Array { values } => values.iter().map(size_expr).sum(),
        Expr::Index { left, index } => size_expr(left) + size_expr(index),
        Expr::While { condition, body } => size_expr(condition) + size_block(body),
        _ => 0,
    }
}
