//! Choice tapes: every random decision of every generator is read from a byte tape that
//! proptest generates and shrinks (shorter tape / smaller bytes = simpler case). The same
//! decoding is used by the fuzz targets (bytes from libFuzzer).
use proptest::prelude::*;
use proptest::test_runner::{Config, RngAlgorithm, RngSeed, TestCaseError, TestError, TestRng, TestRunner};

pub struct Tape<'a> {
    d: &'a [u8],
    i: usize,
}

impl<'a> Tape<'a> {
    pub fn new(d: &'a [u8]) -> Tape<'a> {
        Tape { d, i: 0 }
    }
    pub fn exhausted(&self) -> bool {
        self.i >= self.d.len()
    }
    pub fn used(&self) -> usize {
        self.i
    }
    #[inline]
    pub fn byte(&mut self) -> u8 {
        if self.i < self.d.len() {
            let b = self.d[self.i];
            self.i += 1;
            b
        } else {
            0
        }
    }
    /// uniform-ish choice in 0..n, monotone in the tape bytes (0 stays 0 when shrinking)
    pub fn below(&mut self, n: usize) -> usize {
        if n <= 1 {
            return 0;
        }
        if n <= 256 {
            (self.byte() as usize * n) >> 8
        } else {
            let v = ((self.byte() as usize) << 8) | self.byte() as usize;
            (v * n) >> 16
        }
    }
    pub fn pick<'b, T>(&mut self, items: &'b [T]) -> &'b T {
        &items[self.below(items.len())]
    }
    pub fn pick_str(&mut self, items: &[&'static str]) -> &'static str {
        items[self.below(items.len())]
    }
    pub fn u64(&mut self) -> u64 {
        let mut v = 0u64;
        for _ in 0..8 {
            v = (v << 8) | self.byte() as u64;
        }
        v
    }
    pub fn range(&mut self, lo: i64, hi: i64) -> i64 {
        lo + self.below((hi - lo + 1) as usize) as i64
    }
}

/// true with probability num/256; always false once the tape is exhausted
impl<'a> Tape<'a> {
    pub fn maybe(&mut self, num: u32) -> bool {
        if self.exhausted() {
            return false;
        }
        (self.byte() as u32) < num
    }
}

pub fn runner(seed: u64, cases: u32) -> TestRunner {
    let cfg = Config {
        cases,
        failure_persistence: None,
        rng_algorithm: RngAlgorithm::ChaCha,
        rng_seed: RngSeed::Fixed(seed),
        max_shrink_iters: 4000,
        max_global_rejects: 1 << 30,
        ..Config::default()
    };
    let mut b = [0u8; 32];
    b[..8].copy_from_slice(&seed.to_le_bytes());
    b[8..16].copy_from_slice(&(!seed).to_le_bytes());
    TestRunner::new_with_rng(cfg, TestRng::from_seed(RngAlgorithm::ChaCha, &b))
}

/// Runs `cases` tapes of length `0..=max_len` through `check`. `check` returns Err(msg) to
/// signal a failing case; the minimal failing tape after shrinking is returned.
pub fn run_tapes(
    seed: u64,
    cases: u32,
    max_len: usize,
    mut check: impl FnMut(&[u8], bool) -> Result<(), String>,
) -> Option<(Vec<u8>, String)> {
    let mut r = runner(seed, cases);
    let strat = proptest::collection::vec(any::<u8>(), 0..=max_len);
    let failed = std::cell::Cell::new(false);
    let check = std::cell::RefCell::new(&mut check);
    let res = r.run(&strat, |t| {
        // once a failure was seen the closure is re-run for shrinking: tell the check so that
        // it stops counting
        match (check.borrow_mut())(&t, failed.get()) {
            Ok(()) => Ok(()),
            Err(m) => {
                failed.set(true);
                Err(TestCaseError::fail(m))
            }
        }
    });
    match res {
        Ok(()) => None,
        Err(TestError::Fail(reason, tape)) => Some((tape, reason.message().to_string())),
        Err(TestError::Abort(reason)) => {
            eprintln!("proptest aborted: {}", reason.message());
            std::process::exit(2);
        }
    }
}
