//! Program transformations for the metamorphic checks (C09 renaming / padding / poisoning,
//! C10 T1-T4). `map_names` visits declarations and uses in exactly the order the reference
//! resolver records them (refint::Resolver::events).
use crate::ast::*;
use crate::refint::BUILTINS;

/// f(event index, is_decl, name) -> new name
pub fn map_names(prog: &BlockStmt, f: &mut dyn FnMut(usize, bool, &str) -> String) -> BlockStmt {
    let mut k = 0usize;
    map_block(prog, f, &mut k)
}

fn map_block(b: &BlockStmt, f: &mut dyn FnMut(usize, bool, &str) -> String, k: &mut usize) -> BlockStmt {
    b.iter().map(|s| map_stmt(s, f, k)).collect()
}

fn ev(f: &mut dyn FnMut(usize, bool, &str) -> String, k: &mut usize, is_decl: bool, n: &str) -> String {
    let r = f(*k, is_decl, n);
    *k += 1;
    r
}

fn map_stmt(s: &Stmt, f: &mut dyn FnMut(usize, bool, &str) -> String, k: &mut usize) -> Stmt {
    match s {
        Stmt::Let(n, e) => {
            let n2 = ev(f, k, true, n);
            Stmt::Let(n2, map_expr(e, f, k))
        }
        Stmt::Return(e) => Stmt::Return(map_expr(e, f, k)),
        Stmt::Expr(e) => Stmt::Expr(map_expr(e, f, k)),
        Stmt::Block(b) => Stmt::Block(map_block(b, f, k)),
        Stmt::Break => Stmt::Break,
        Stmt::Continue => Stmt::Continue,
    }
}

fn map_expr(e: &Expr, f: &mut dyn FnMut(usize, bool, &str) -> String, k: &mut usize) -> Expr {
    match e {
        Expr::Int { .. } | Expr::Float { .. } | Expr::Bool { .. } | Expr::String { .. } => e.clone(),
        Expr::Identifier(n) => Expr::Identifier(ev(f, k, false, n)),
        Expr::Prefix { operator, right } => Expr::Prefix { operator: *operator, right: Box::new(map_expr(right, f, k)) },
        Expr::Infix { left, operator, right } => {
            let l = map_expr(left, f, k);
            let r = map_expr(right, f, k);
            Expr::Infix { left: Box::new(l), operator: *operator, right: Box::new(r) }
        }
        Expr::Assign { left, right } => match &**left {
            Expr::Identifier(n) => {
                let n2 = ev(f, k, false, n);
                let r = map_expr(right, f, k);
                Expr::Assign { left: Box::new(Expr::Identifier(n2)), right: Box::new(r) }
            }
            Expr::Index { left: l, index } => {
                let a = map_expr(l, f, k);
                let i = map_expr(index, f, k);
                let v = map_expr(right, f, k);
                Expr::Assign { left: Box::new(Expr::Index { left: Box::new(a), index: Box::new(i) }), right: Box::new(v) }
            }
            _ => e.clone(),
        },
        Expr::If { condition, consequence, alternative } => {
            let c = map_expr(condition, f, k);
            let t = map_block(consequence, f, k);
            let a = alternative.as_ref().map(|a| map_block(a, f, k));
            Expr::If { condition: Box::new(c), consequence: t, alternative: a }
        }
        Expr::While { condition, body } => {
            let c = map_expr(condition, f, k);
            let b = map_block(body, f, k);
            Expr::While { condition: Box::new(c), body: b }
        }
        Expr::Function { name, parameters, body } => {
            let n2 = if name.is_empty() { String::new() } else { ev(f, k, true, name) };
            let ps: Vec<String> = parameters.iter().map(|p| ev(f, k, true, p)).collect();
            let b = map_block(body, f, k);
            Expr::Function { name: n2, parameters: ps, body: b }
        }
        Expr::Call { left, arguments } => {
            let args: Vec<Expr> = arguments.iter().map(|a| map_expr(a, f, k)).collect();
            if let Expr::Identifier(n) = &**left {
                if BUILTINS.contains(&n.as_str()) {
                    return Expr::Call { left: left.clone(), arguments: args };
                }
            }
            let l = map_expr(left, f, k);
            Expr::Call { left: Box::new(l), arguments: args }
        }
        Expr::Array { values } => Expr::Array { values: values.iter().map(|v| map_expr(v, f, k)).collect() },
        Expr::Index { left, index } => {
            let l = map_expr(left, f, k);
            let i = map_expr(index, f, k);
            Expr::Index { left: Box::new(l), index: Box::new(i) }
        }
    }
}

/// does the identifier occur anywhere in the statements (as a use, a declaration or a parameter)?
pub fn mentions(b: &[Stmt], name: &str) -> bool {
    let mut found = false;
    let v: BlockStmt = b.to_vec();
    map_names(&v, &mut |_, _, n| {
        if n == name {
            found = true;
        }
        n.to_string()
    });
    found
}

/// all nested non-empty blocks of the program (not the top level), addressed by a pre-order number
pub fn count_inner_blocks(prog: &BlockStmt) -> usize {
    let mut n = 0;
    visit_blocks(prog, &mut |_| n += 1);
    n
}

fn visit_blocks(b: &BlockStmt, f: &mut dyn FnMut(&BlockStmt)) {
    for s in b {
        match s {
            Stmt::Let(_, e) | Stmt::Return(e) | Stmt::Expr(e) => visit_blocks_expr(e, f),
            Stmt::Block(x) => {
                f(x);
                visit_blocks(x, f);
            }
            _ => {}
        }
    }
}

fn visit_blocks_expr(e: &Expr, f: &mut dyn FnMut(&BlockStmt)) {
    match e {
        Expr::Infix { left, right, .. } => {
            visit_blocks_expr(left, f);
            visit_blocks_expr(right, f);
        }
        Expr::Prefix { right, .. } => visit_blocks_expr(right, f),
        Expr::If { condition, consequence, alternative } => {
            visit_blocks_expr(condition, f);
            f(consequence);
            visit_blocks(consequence, f);
            if let Some(a) = alternative {
                f(a);
                visit_blocks(a, f);
            }
        }
        Expr::While { condition, body } => {
            visit_blocks_expr(condition, f);
            f(body);
            visit_blocks(body, f);
        }
        Expr::Function { body, .. } => {
            f(body);
            visit_blocks(body, f);
        }
        Expr::Call { left, arguments } => {
            for a in arguments {
                visit_blocks_expr(a, f);
            }
            visit_blocks_expr(left, f);
        }
        Expr::Assign { left, right } => {
            visit_blocks_expr(left, f);
            visit_blocks_expr(right, f);
        }
        Expr::Array { values } => {
            for v in values {
                visit_blocks_expr(v, f);
            }
        }
        Expr::Index { left, index } => {
            visit_blocks_expr(left, f);
            visit_blocks_expr(index, f);
        }
        _ => {}
    }
}

/// rewrites the `target`-th inner block (same numbering as `count_inner_blocks`) with `g`
pub fn rewrite_block(prog: &BlockStmt, target: usize, g: &mut dyn FnMut(&BlockStmt) -> BlockStmt) -> BlockStmt {
    let mut k = 0usize;
    rw_block(prog, target, g, &mut k)
}

fn rw_inner(x: &BlockStmt, target: usize, g: &mut dyn FnMut(&BlockStmt) -> BlockStmt, k: &mut usize) -> BlockStmt {
    let me = *k;
    *k += 1;
    let inner = rw_block(x, target, g, k);
    if me == target {
        g(&inner)
    } else {
        inner
    }
}

fn rw_block(b: &BlockStmt, target: usize, g: &mut dyn FnMut(&BlockStmt) -> BlockStmt, k: &mut usize) -> BlockStmt {
    b.iter()
        .map(|s| match s {
            Stmt::Let(n, e) => Stmt::Let(n.clone(), rw_expr(e, target, g, k)),
            Stmt::Return(e) => Stmt::Return(rw_expr(e, target, g, k)),
            Stmt::Expr(e) => Stmt::Expr(rw_expr(e, target, g, k)),
            Stmt::Block(x) => Stmt::Block(rw_inner(x, target, g, k)),
            other => other.clone(),
        })
        .collect()
}

fn rw_expr(e: &Expr, target: usize, g: &mut dyn FnMut(&BlockStmt) -> BlockStmt, k: &mut usize) -> Expr {
    match e {
        Expr::Infix { left, operator, right } => {
            let l = rw_expr(left, target, g, k);
            let r = rw_expr(right, target, g, k);
            Expr::Infix { left: Box::new(l), operator: *operator, right: Box::new(r) }
        }
        Expr::Prefix { operator, right } => Expr::Prefix { operator: *operator, right: Box::new(rw_expr(right, target, g, k)) },
        Expr::If { condition, consequence, alternative } => {
            let c = rw_expr(condition, target, g, k);
            let t = rw_inner(consequence, target, g, k);
            let a = alternative.as_ref().map(|a| rw_inner(a, target, g, k));
            Expr::If { condition: Box::new(c), consequence: t, alternative: a }
        }
        Expr::While { condition, body } => {
            let c = rw_expr(condition, target, g, k);
            let b = rw_inner(body, target, g, k);
            Expr::While { condition: Box::new(c), body: b }
        }
        Expr::Function { name, parameters, body } => {
            Expr::Function { name: name.clone(), parameters: parameters.clone(), body: rw_inner(body, target, g, k) }
        }
        Expr::Call { left, arguments } => {
            let args = arguments.iter().map(|a| rw_expr(a, target, g, k)).collect();
            let l = rw_expr(left, target, g, k);
            Expr::Call { left: Box::new(l), arguments: args }
        }
        Expr::Assign { left, right } => {
            let l = rw_expr(left, target, g, k);
            let r = rw_expr(right, target, g, k);
            Expr::Assign { left: Box::new(l), right: Box::new(r) }
        }
        Expr::Array { values } => Expr::Array { values: values.iter().map(|v| rw_expr(v, target, g, k)).collect() },
        Expr::Index { left, index } => {
            let l = rw_expr(left, target, g, k);
            let i = rw_expr(index, target, g, k);
            Expr::Index { left: Box::new(l), index: Box::new(i) }
        }
        other => other.clone(),
    }
}

// ---------------------------------------------------------------------------------------
// C10 transformations

/// T1: the whole top level becomes the body of a function that is called at once
pub fn t1_wrap(prog: &BlockStmt) -> BlockStmt {
    vec![es(Expr::Function { name: "hoofd".into(), parameters: vec![], body: prog.clone() }), es(calln("hoofd", vec![]))]
}

/// generic bottom-up expression rewriter; `unit_enter/unit_leave` bracket every function body
struct Rw<'a> {
    on_expr: &'a mut dyn FnMut(&Expr, &mut Vec<Stmt>) -> Option<Expr>,
}

impl<'a> Rw<'a> {
    fn unit(&mut self, b: &BlockStmt) -> BlockStmt {
        let mut pending: Vec<Stmt> = Vec::new();
        let mut body = self.block(b, &mut pending);
        if !pending.is_empty() {
            let mut nb = pending;
            nb.append(&mut body);
            nb
        } else {
            body
        }
    }
    fn block(&mut self, b: &BlockStmt, pending: &mut Vec<Stmt>) -> BlockStmt {
        b.iter()
            .map(|s| match s {
                Stmt::Let(n, e) => Stmt::Let(n.clone(), self.expr(e, pending)),
                Stmt::Return(e) => Stmt::Return(self.expr(e, pending)),
                Stmt::Expr(e) => Stmt::Expr(self.expr(e, pending)),
                Stmt::Block(x) => Stmt::Block(self.block(x, pending)),
                other => other.clone(),
            })
            .collect()
    }
    fn expr(&mut self, e: &Expr, pending: &mut Vec<Stmt>) -> Expr {
        if let Some(r) = (self.on_expr)(e, pending) {
            return r;
        }
        match e {
            Expr::Infix { left, operator, right } => {
                let l = self.expr(left, pending);
                let r = self.expr(right, pending);
                Expr::Infix { left: Box::new(l), operator: *operator, right: Box::new(r) }
            }
            Expr::Prefix { operator, right } => Expr::Prefix { operator: *operator, right: Box::new(self.expr(right, pending)) },
            Expr::If { condition, consequence, alternative } => {
                let c = self.expr(condition, pending);
                let t = self.block(consequence, pending);
                let a = alternative.as_ref().map(|a| self.block(a, pending));
                Expr::If { condition: Box::new(c), consequence: t, alternative: a }
            }
            Expr::While { condition, body } => {
                let c = self.expr(condition, pending);
                let b = self.block(body, pending);
                Expr::While { condition: Box::new(c), body: b }
            }
            Expr::Function { name, parameters, body } => Expr::Function { name: name.clone(), parameters: parameters.clone(), body: self.unit(body) },
            Expr::Call { left, arguments } => {
                let args = arguments.iter().map(|a| self.expr(a, pending)).collect();
                let l = self.expr(left, pending);
                Expr::Call { left: Box::new(l), arguments: args }
            }
            Expr::Assign { left, right } => {
                let l = match &**left {
                    Expr::Index { left: a, index } => {
                        let a2 = self.expr(a, pending);
                        let i2 = self.expr(index, pending);
                        Expr::Index { left: Box::new(a2), index: Box::new(i2) }
                    }
                    other => other.clone(),
                };
                let r = self.expr(right, pending);
                Expr::Assign { left: Box::new(l), right: Box::new(r) }
            }
            Expr::Array { values } => Expr::Array { values: values.iter().map(|v| self.expr(v, pending)).collect() },
            Expr::Index { left, index } => {
                let l = self.expr(left, pending);
                let i = self.expr(index, pending);
                Expr::Index { left: Box::new(l), index: Box::new(i) }
            }
            other => other.clone(),
        }
    }
}

fn is_plain_literal(e: &Expr) -> bool {
    // immutable values only: a string literal yields a fresh object per evaluation, a variable does not
    matches!(e, Expr::Int { .. } | Expr::Float { .. } | Expr::Bool { .. })
}

/// sites of T2: every int / float / bool literal in expression position (operand, array element, argument, index,
/// condition, initialiser, returned or assigned value, statement)
fn int_operand_sites(prog: &BlockStmt) -> usize {
    let mut n = 0;
    let mut rw = Rw {
        on_expr: &mut |e, _| {
            if is_plain_literal(e) {
                n += 1;
            }
            None
        },
    };
    rw.unit(prog);
    n
}

/// T2: the `k`-th literal becomes a fresh variable declared at the start of the enclosing unit
pub fn t2_literal_to_variable(prog: &BlockStmt, k: usize, fresh: &str) -> Option<BlockStmt> {
    if int_operand_sites(prog) == 0 {
        return None;
    }
    let mut seen = 0usize;
    let mut done = false;
    let fresh = fresh.to_string();
    let out = {
        let mut rw = Rw {
            on_expr: &mut |e, pending| {
                if !is_plain_literal(e) {
                    return None;
                }
                let hit = !done && seen == k;
                seen += 1;
                if hit {
                    done = true;
                    pending.push(Stmt::Let(fresh.clone(), e.clone()));
                    Some(Expr::Identifier(fresh.clone()))
                } else {
                    // a literal has nothing below it
                    Some(e.clone())
                }
            },
        };
        rw.unit(prog)
    };
    if done {
        Some(out)
    } else {
        None
    }
}

fn mirror_op(op: Operator) -> Option<Operator> {
    Some(match op {
        Operator::Add | Operator::Multiply | Operator::Eq | Operator::Neq => op,
        Operator::Lt => Operator::Gt,
        Operator::Gt => Operator::Lt,
        Operator::Lte => Operator::Gte,
        Operator::Gte => Operator::Lte,
        _ => return None,
    })
}

fn is_mirror_site(e: &Expr) -> bool {
    if let Expr::Infix { left, operator, right } = e {
        if mirror_op(*operator).is_none() {
            return false;
        }
        return matches!((&**left, &**right), (Expr::Int { .. }, Expr::Identifier(_)) | (Expr::Identifier(_), Expr::Int { .. }));
    }
    false
}

/// T3: the `k`-th `c op x` / `x op c` is mirrored
pub fn t3_mirror(prog: &BlockStmt, k: usize) -> Option<BlockStmt> {
    let mut seen = 0usize;
    let mut done = false;
    let out = {
        let mut rw = Rw {
            on_expr: &mut |e, _| {
                if done || !is_mirror_site(e) {
                    return None;
                }
                let me = seen;
                seen += 1;
                if me != k {
                    return None;
                }
                if let Expr::Infix { left, operator, right } = e {
                    done = true;
                    return Some(Expr::Infix { left: right.clone(), operator: mirror_op(*operator).unwrap(), right: left.clone() });
                }
                None
            },
        };
        rw.unit(prog)
    };
    if done {
        Some(out)
    } else {
        None
    }
}

pub fn count_mirror_sites(prog: &BlockStmt) -> usize {
    let mut n = 0;
    let mut rw = Rw {
        on_expr: &mut |e, _| {
            if is_mirror_site(e) {
                n += 1;
            }
            None
        },
    };
    rw.unit(prog);
    n
}

pub fn count_int_operand_sites(prog: &BlockStmt) -> usize {
    int_operand_sites(prog)
}

/// literals of the program (for T4)
pub fn collect_literals(prog: &BlockStmt) -> Vec<Expr> {
    let mut out: Vec<Expr> = Vec::new();
    let mut rw = Rw {
        on_expr: &mut |e, _| {
            match e {
                Expr::Int { .. } | Expr::Float { .. } => {
                    if !out.contains(e) {
                        out.push(e.clone());
                    }
                }
                Expr::String { value } => {
                    // U10: a literal that is modified in place must stay unique in the program
                    if !value.starts_with("uniek") && !out.contains(e) {
                        out.push(e.clone());
                    }
                }
                _ => {}
            }
            None
        },
    };
    rw.unit(prog);
    out
}

/// T4: expression statements mentioning literals are prepended (constant-pool indices shift and merge)
pub fn t4_prepend(prog: &BlockStmt, lits: &[Expr]) -> BlockStmt {
    let mut out: BlockStmt = lits.iter().map(|l| es(l.clone())).collect();
    out.extend(prog.iter().cloned());
    out
}
