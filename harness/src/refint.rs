//! Definitional reference interpreter (DESIGN.md 4.1). Walks the syntax tree; no bytecode,
//! no stack, no slots, no constant pool, no collector. Written from the README, the examples
//! and - only where those are silent but the test suite pins a behaviour - from the tests.
use crate::ast::*;
use crate::engine::{fbits, ErrKind, Val};
use crate::lattice::{MAX_INT, MIN_INT};
use std::cell::RefCell;
use std::collections::{BTreeSet, HashMap};
use std::rc::Rc;

// ---------------------------------------------------------------------------------------
// resolved tree

#[derive(Clone, Copy, Debug, PartialEq, Eq, Hash)]
pub struct VarRef {
    pub global: bool,
    pub decl: usize,
}

#[derive(Debug)]
pub enum RStmt {
    Let(VarRef, RExpr),
    Return(RExpr),
    Expr(RExpr),
    Block(Vec<RStmt>),
    Break,
    Continue,
}

#[derive(Debug)]
pub enum RExpr {
    Infix(Box<RExpr>, Operator, Box<RExpr>),
    Prefix(Operator, Box<RExpr>),
    Int(i128),
    Float(f64),
    Bool(bool),
    Str(String),
    If(Box<RExpr>, Vec<RStmt>, Option<Vec<RStmt>>),
    Var(VarRef, String),
    Function(Rc<RFunc>),
    Call(Box<RExpr>, Vec<RExpr>),
    Builtin(&'static str, Vec<RExpr>),
    Assign(VarRef, Box<RExpr>),
    IndexAssign(Box<RExpr>, Box<RExpr>, Box<RExpr>),
    Array(Vec<RExpr>),
    Index(Box<RExpr>, Box<RExpr>),
    While(Box<RExpr>, Vec<RStmt>),
}

#[derive(Debug)]
pub struct RFunc {
    pub id: usize,
    pub name: Option<VarRef>,
    pub params: Vec<usize>,
    pub body: Vec<RStmt>,
}

pub const BUILTINS: [&str; 7] = ["print", "type", "bool", "int", "float", "string", "lengte"];

/// A static error: (kind, text)
pub type StaticError = (ErrKind, String);

struct Ctx {
    scopes: Vec<Vec<(String, usize)>>,
    loops: usize,
}

pub struct Resolver {
    ctxs: Vec<Ctx>,
    next_decl: usize,
    next_func: usize,
    /// for every declaration: (name, is_global)
    pub decls: Vec<(String, bool)>,
    /// for every use (in textual order): the declaration it is bound to
    pub uses: Vec<(String, VarRef)>,
    /// declarations and uses in traversal order (the same order `transform::map_names` visits them)
    pub events: Vec<NameEvent>,
    /// some use resolved to an outer declaration although a later declaration of the same name exists (closed scope or other context)
    pub outer_after_inner: bool,
}

#[derive(Clone, Debug)]
pub struct NameEvent {
    pub name: String,
    pub decl: usize,
    pub is_decl: bool,
}

impl Resolver {
    pub fn new() -> Resolver {
        Resolver { ctxs: vec![Ctx { scopes: vec![vec![]], loops: 0 }], next_decl: 0, next_func: 0, decls: vec![], uses: vec![], events: vec![], outer_after_inner: false }
    }
    fn define(&mut self, name: &str) -> VarRef {
        let d = self.next_decl;
        self.next_decl += 1;
        let global = self.ctxs.len() == 1;
        self.decls.push((name.to_string(), global));
        self.events.push(NameEvent { name: name.to_string(), decl: d, is_decl: true });
        self.ctxs.last_mut().unwrap().scopes.last_mut().unwrap().push((name.to_string(), d));
        VarRef { global, decl: d }
    }
    fn lookup_in(c: &Ctx, name: &str) -> Option<usize> {
        for s in c.scopes.iter().rev() {
            // a later declaration of the same name in the same scope takes over
            if let Some((_, d)) = s.iter().rev().find(|(n, _)| n == name) {
                return Some(*d);
            }
        }
        None
    }
    fn resolve(&mut self, name: &str) -> Result<VarRef, StaticError> {
        let n = self.ctxs.len();
        if let Some(d) = Self::lookup_in(&self.ctxs[n - 1], name) {
            let r = VarRef { global: n == 1, decl: d };
            self.uses.push((name.to_string(), r));
            self.note_use(name, d);
            return Ok(r);
        }
        if n > 1 {
            if let Some(d) = Self::lookup_in(&self.ctxs[0], name) {
                let r = VarRef { global: true, decl: d };
                self.uses.push((name.to_string(), r));
                self.note_use(name, d);
                return Ok(r);
            }
        }
        Err((ErrKind::Reference, format!("{name} is not declared")))
    }
    fn note_use(&mut self, name: &str, d: usize) {
        self.events.push(NameEvent { name: name.to_string(), decl: d, is_decl: false });
        if self.decls.iter().enumerate().any(|(i, (n, _))| i > d && n == name) {
            self.outer_after_inner = true;
        }
    }
    pub fn block(&mut self, b: &BlockStmt, top: bool) -> Result<Vec<RStmt>, StaticError> {
        if b.is_empty() {
            return Ok(vec![]);
        }
        if !top {
            self.ctxs.last_mut().unwrap().scopes.push(vec![]);
        }
        let mut out = Vec::new();
        for s in b {
            out.push(self.stmt(s)?);
        }
        if !top {
            self.ctxs.last_mut().unwrap().scopes.pop();
        }
        Ok(out)
    }
    fn stmt(&mut self, s: &Stmt) -> Result<RStmt, StaticError> {
        Ok(match s {
            Stmt::Let(n, e) => {
                let v = self.define(n);
                RStmt::Let(v, self.expr(e)?)
            }
            Stmt::Return(e) => {
                let r = self.expr(e)?;
                if self.ctxs.len() == 1 {
                    return Err((ErrKind::Any, "antwoord outside a function".into()));
                }
                RStmt::Return(r)
            }
            Stmt::Expr(e) => RStmt::Expr(self.expr(e)?),
            Stmt::Block(b) => RStmt::Block(self.block(b, false)?),
            Stmt::Break => {
                if self.ctxs.last().unwrap().loops == 0 {
                    return Err((ErrKind::Syntax, "stop outside a loop".into()));
                }
                RStmt::Break
            }
            Stmt::Continue => {
                if self.ctxs.last().unwrap().loops == 0 {
                    return Err((ErrKind::Syntax, "volgende outside a loop".into()));
                }
                RStmt::Continue
            }
        })
    }
    fn expr(&mut self, e: &Expr) -> Result<RExpr, StaticError> {
        Ok(match e {
            Expr::Int { value } => {
                let v = *value as i128;
                if v > MAX_INT as i128 || v < MIN_INT as i128 {
                    return Err((ErrKind::Any, "integer literal outside the range".into()));
                }
                RExpr::Int(v)
            }
            Expr::Float { value } => RExpr::Float(*value),
            Expr::Bool { value } => RExpr::Bool(*value),
            Expr::String { value } => RExpr::Str(value.clone()),
            Expr::Identifier(n) => RExpr::Var(self.resolve(n)?, n.clone()),
            Expr::Prefix { operator, right } => RExpr::Prefix(*operator, Box::new(self.expr(right)?)),
            Expr::Infix { left, operator, right } => {
                let l = self.expr(left)?;
                let r = self.expr(right)?;
                RExpr::Infix(Box::new(l), *operator, Box::new(r))
            }
            Expr::Assign { left, right } => match &**left {
                Expr::Identifier(n) => {
                    let v = self.resolve(n)?;
                    RExpr::Assign(v, Box::new(self.expr(right)?))
                }
                Expr::Index { left: l, index } => {
                    let a = self.expr(l)?;
                    let i = self.expr(index)?;
                    let v = self.expr(right)?;
                    RExpr::IndexAssign(Box::new(a), Box::new(i), Box::new(v))
                }
                _ => return Err((ErrKind::Type, "bad assignment target".into())),
            },
            Expr::If { condition, consequence, alternative } => {
                let c = self.expr(condition)?;
                let t = self.block(consequence, false)?;
                let a = match alternative {
                    Some(a) => Some(self.block(a, false)?),
                    None => None,
                };
                RExpr::If(Box::new(c), t, a)
            }
            Expr::While { condition, body } => {
                self.ctxs.last_mut().unwrap().loops += 1;
                let c = self.expr(condition);
                let b = c.and_then(|c| Ok((c, self.block(body, false)?)));
                self.ctxs.last_mut().unwrap().loops -= 1;
                let (c, b) = b?;
                RExpr::While(Box::new(c), b)
            }
            Expr::Function { name, parameters, body } => {
                let namev = if name.is_empty() { None } else { Some(self.define(name)) };
                self.ctxs.push(Ctx { scopes: vec![vec![]], loops: 0 });
                let mut params = Vec::new();
                for p in parameters {
                    params.push(self.define(p).decl);
                }
                let b = self.block(body, false);
                self.ctxs.pop();
                let id = self.next_func;
                self.next_func += 1;
                RExpr::Function(Rc::new(RFunc { id, name: namev, params, body: b? }))
            }
            Expr::Call { left, arguments } => {
                let mut args = Vec::new();
                for a in arguments {
                    args.push(self.expr(a)?);
                }
                if let Expr::Identifier(n) = &**left {
                    if let Some(b) = BUILTINS.iter().find(|b| *b == n) {
                        return Ok(RExpr::Builtin(b, args));
                    }
                }
                let f = self.expr(left)?;
                RExpr::Call(Box::new(f), args)
            }
            Expr::Array { values } => {
                let mut v = Vec::new();
                for x in values {
                    v.push(self.expr(x)?);
                }
                RExpr::Array(v)
            }
            Expr::Index { left, index } => {
                let l = self.expr(left)?;
                let i = self.expr(index)?;
                RExpr::Index(Box::new(l), Box::new(i))
            }
        })
    }
}

// ---------------------------------------------------------------------------------------
// values

#[derive(Clone, Debug)]
pub enum V {
    Null,
    Bool(bool),
    Int(i64),
    Float(f64),
    Str(Rc<RefCell<String>>),
    Arr(Rc<RefCell<Vec<V>>>),
    Func(Rc<RFunc>),
    /// a value the documentation does not fix (U8/U9); using it makes the case unspecified
    Unspec,
}

impl V {
    pub fn str(s: &str) -> V {
        V::Str(Rc::new(RefCell::new(s.to_string())))
    }
    pub fn type_name(&self) -> &'static str {
        match self {
            V::Null => "null",
            V::Bool(_) => "bool",
            V::Int(_) => "int",
            V::Float(_) => "float",
            V::Str(_) => "string",
            V::Arr(_) => "array",
            V::Func(_) => "functie",
            V::Unspec => "unspecified",
        }
    }
}

/// How evaluation ended
#[derive(Debug, Clone, PartialEq)]
pub enum RefOutcome {
    Value(Val),
    Error(ErrKind),
    /// the documentation does not fix the behaviour (with the rule number of DESIGN.md 4.3)
    Unspecified(String),
    Budget,
}

#[derive(Debug, Clone, Default)]
pub struct Stats {
    pub calls: u64,
    pub iterations: u64,
    pub features: BTreeSet<&'static str>,
    pub max_depth: usize,
    pub same_fn_live_twice: bool,
    pub call_with_pending: bool,
    pub early_exit_depth2: bool,
    pub continue_in_2plus_iter_loop: bool,
    pub alias_write_seen: bool,
    pub negative_or_oob_index: bool,
    pub multibyte_string: bool,
    pub shadow_outer_after_inner: bool,
}

#[derive(Debug, Clone)]
pub struct RefObs {
    pub outcome: RefOutcome,
    pub output: String,
    pub steps: u64,
    pub stats: Stats,
}

enum Flow {
    Err(ErrKind),
    Unspec(String),
    Budget,
    Break,
    Continue,
    Return(V),
}

type R<T> = Result<T, Flow>;

struct Act {
    vars: HashMap<usize, V>,
    func: usize,
}

pub struct Interp {
    globals: HashMap<usize, V>,
    acts: Vec<Act>,
    pub output: String,
    steps: u64,
    budget: u64,
    pending: usize,
    nesting: usize,
    pub stats: Stats,
    live_funcs: HashMap<usize, usize>,
    max_native_depth: usize,
}

fn unspec<T>(rule: &str) -> R<T> {
    Err(Flow::Unspec(rule.to_string()))
}

pub fn display_float(f: f64) -> String {
    format!("{}", f)
}

impl Interp {
    pub fn new(budget: u64) -> Interp {
        Interp {
            globals: HashMap::new(),
            acts: Vec::new(),
            output: String::new(),
            steps: 0,
            budget,
            pending: 0,
            nesting: 0,
            stats: Stats::default(),
            live_funcs: HashMap::new(),
            max_native_depth: 2500,
        }
    }
    fn tick(&mut self) -> R<()> {
        self.steps += 1;
        if self.steps > self.budget {
            return Err(Flow::Budget);
        }
        Ok(())
    }
    fn feat(&mut self, f: &'static str) {
        self.stats.features.insert(f);
    }
    fn get(&mut self, v: VarRef) -> R<V> {
        let got = if v.global { self.globals.get(&v.decl) } else { self.acts.last().and_then(|a| a.vars.get(&v.decl)) };
        match got {
            Some(V::Unspec) => unspec("U8/U9: read of an unspecified value"),
            Some(x) => Ok(x.clone()),
            None => unspec("U4/U5: read of a variable that is not (or no longer) initialised"),
        }
    }
    fn set(&mut self, v: VarRef, x: V) {
        if v.global {
            self.globals.insert(v.decl, x);
        } else if let Some(a) = self.acts.last_mut() {
            a.vars.insert(v.decl, x);
        }
    }
    /// value of a block in value position: the value of its last statement if that is an expression statement; a
    /// non-empty block statement in last position is transparent (its own last statement decides, recursively)
    fn block_value(&mut self, b: &[RStmt]) -> R<V> {
        let mut last = V::Null;
        for (i, s) in b.iter().enumerate() {
            let is_last = i + 1 == b.len();
            match s {
                RStmt::Block(inner) if is_last => {
                    self.tick()?;
                    self.nesting += 1;
                    // U9 (narrowed): only `{}` in last position is left open (the pinned compiler emits nothing for it, so
                    // the value of the statement before it shows through)
                    let r = if inner.is_empty() { Ok(V::Unspec) } else { self.block_value(inner) };
                    self.nesting -= 1;
                    last = r?;
                }
                _ => {
                    let v = self.stmt(s)?;
                    if is_last {
                        last = match s {
                            RStmt::Expr(_) => v,
                            _ => V::Null,
                        };
                    }
                }
            }
        }
        Ok(last)
    }
    fn stmt(&mut self, s: &RStmt) -> R<V> {
        self.tick()?;
        match s {
            RStmt::Let(v, e) => {
                let x = self.expr(e)?;
                self.set(*v, x);
                Ok(V::Null)
            }
            RStmt::Return(e) => {
                let x = self.expr(e)?;
                if self.nesting >= 2 {
                    self.stats.early_exit_depth2 = true;
                }
                Err(Flow::Return(x))
            }
            RStmt::Expr(e) => self.expr(e),
            RStmt::Block(b) => {
                self.nesting += 1;
                let r = (|| {
                    for s in b {
                        self.stmt(s)?;
                    }
                    Ok(V::Null)
                })();
                self.nesting -= 1;
                r
            }
            RStmt::Break => {
                if self.nesting >= 2 {
                    self.stats.early_exit_depth2 = true;
                }
                Err(Flow::Break)
            }
            RStmt::Continue => Err(Flow::Continue),
        }
    }
    fn arith(&mut self, l: V, op: Operator, r: V) -> R<V> {
        use Operator::*;
        match (&l, &r) {
            (V::Unspec, _) | (_, V::Unspec) => unspec("U8/U9: unspecified value used as operand"),
            (V::Int(a), V::Int(b)) => {
                let (a, b) = (*a as i128, *b as i128);
                let cmp = |x: bool| Ok(V::Bool(x));
                let num = |x: Option<i128>| match x {
                    Some(x) if x >= MIN_INT as i128 && x <= MAX_INT as i128 => Ok(V::Int(x as i64)),
                    // U6: zero divisor / result outside the range: an error of unspecified kind
                    _ => Err(Flow::Err(ErrKind::Any)),
                };
                match op {
                    Add => num(Some(a + b)),
                    Subtract => num(Some(a - b)),
                    Multiply => num(Some(a * b)),
                    Divide => num(if b == 0 { None } else { Some(a / b) }),
                    Modulo => num(if b == 0 { None } else { Some(a % b) }),
                    Lt => cmp(a < b),
                    Lte => cmp(a <= b),
                    Gt => cmp(a > b),
                    Gte => cmp(a >= b),
                    Eq => cmp(a == b),
                    Neq => cmp(a != b),
                    _ => Err(Flow::Err(ErrKind::Type)),
                }
            }
            (V::Float(a), V::Float(b)) => {
                let (a, b) = (*a, *b);
                Ok(match op {
                    Add => V::Float(a + b),
                    Subtract => V::Float(a - b),
                    Multiply => V::Float(a * b),
                    Divide => V::Float(a / b),
                    Modulo => V::Float(a % b),
                    Lt => V::Bool(a < b),
                    Lte => V::Bool(a <= b),
                    Gt => V::Bool(a > b),
                    Gte => V::Bool(a >= b),
                    Eq => V::Bool(a == b),
                    Neq => V::Bool(a != b),
                    _ => return Err(Flow::Err(ErrKind::Type)),
                })
            }
            (V::Str(a), V::Str(b)) => {
                let (a, b): (Vec<char>, Vec<char>) = (a.borrow().chars().collect(), b.borrow().chars().collect());
                Ok(match op {
                    Lt => V::Bool(a < b),
                    Lte => V::Bool(a <= b),
                    Gt => V::Bool(a > b),
                    Gte => V::Bool(a >= b),
                    Eq => V::Bool(a == b),
                    Neq => V::Bool(a != b),
                    _ => return Err(Flow::Err(ErrKind::Type)),
                })
            }
            (V::Bool(a), V::Bool(b)) => match op {
                And => Ok(V::Bool(*a && *b)),
                Or => Ok(V::Bool(*a || *b)),
                Eq => Ok(V::Bool(a == b)),
                Neq => Ok(V::Bool(a != b)),
                Lt | Lte | Gt | Gte => unspec("U11: ordering of booleans"),
                _ => Err(Flow::Err(ErrKind::Type)),
            },
            (V::Null, V::Null) => match op {
                Eq => Ok(V::Bool(true)),
                Neq => Ok(V::Bool(false)),
                Lt | Lte | Gt | Gte => unspec("U11: ordering of null"),
                _ => Err(Flow::Err(ErrKind::Type)),
            },
            (V::Func(a), V::Func(b)) => match op {
                Eq => Ok(V::Bool(Rc::ptr_eq(a, b))),
                Neq => Ok(V::Bool(!Rc::ptr_eq(a, b))),
                // ordering functions: unsupported operand type, an error
                _ => Err(Flow::Err(ErrKind::Any)),
            },
            // arrays: no operator is supported on them
            (V::Arr(_), V::Arr(_)) => Err(Flow::Err(ErrKind::Any)),
            // operands of different type
            _ => Err(Flow::Err(ErrKind::Type)),
        }
    }
    fn expr(&mut self, e: &RExpr) -> R<V> {
        self.tick()?;
        match e {
            RExpr::Int(i) => Ok(V::Int(*i as i64)),
            RExpr::Float(f) => Ok(V::Float(*f)),
            RExpr::Bool(b) => Ok(V::Bool(*b)),
            RExpr::Str(s) => {
                self.feat("string");
                if !s.is_ascii() {
                    self.stats.multibyte_string = true;
                }
                Ok(V::str(s))
            }
            RExpr::Var(v, _) => self.get(*v),
            RExpr::Function(f) => {
                let v = V::Func(f.clone());
                if let Some(n) = f.name {
                    self.set(n, v.clone());
                }
                Ok(v)
            }
            RExpr::Prefix(op, r) => {
                let x = self.expr(r)?;
                match (op, x) {
                    (_, V::Unspec) => unspec("U8/U9: unspecified value used as operand"),
                    (Operator::Not, V::Bool(b)) => Ok(V::Bool(!b)),
                    (Operator::Not, _) => Err(Flow::Err(ErrKind::Type)),
                    (Operator::Subtract | Operator::Negate, V::Int(i)) => {
                        self.feat("arithmetic");
                        if i == MIN_INT {
                            Err(Flow::Err(ErrKind::Any))
                        } else {
                            Ok(V::Int(-i))
                        }
                    }
                    (Operator::Subtract | Operator::Negate, V::Float(f)) => Ok(V::Float(-f)),
                    _ => Err(Flow::Err(ErrKind::Type)),
                }
            }
            RExpr::Infix(l, op, r) => {
                let a = self.expr(l)?;
                self.pending += 1;
                let b = self.expr(r);
                self.pending -= 1;
                let b = b?;
                self.feat(match op {
                    Operator::Add | Operator::Subtract | Operator::Multiply | Operator::Divide | Operator::Modulo => "arithmetic",
                    Operator::And | Operator::Or => "logic",
                    _ => "comparison",
                });
                self.arith(a, *op, b)
            }
            RExpr::Assign(v, r) => {
                let x = self.expr(r)?;
                self.feat("mutation");
                self.set(*v, x.clone());
                Ok(x)
            }
            RExpr::IndexAssign(a, i, v) => {
                let a = self.expr(a)?;
                self.pending += 1;
                let r = (|| {
                    let i = self.expr(i)?;
                    let v = self.expr(v)?;
                    Ok((i, v))
                })();
                self.pending -= 1;
                let (i, v) = r?;
                self.feat("mutation");
                self.index_set(a, i, v)
            }
            RExpr::If(c, t, a) => {
                let cv = self.expr(c)?;
                self.feat("if");
                let b = match cv {
                    V::Bool(b) => b,
                    V::Unspec => return unspec("U8/U9: unspecified value used as condition"),
                    _ => return Err(Flow::Err(ErrKind::Type)),
                };
                self.nesting += 1;
                let r = if b {
                    self.block_value(t)
                } else if let Some(a) = a {
                    self.block_value(a)
                } else {
                    Ok(V::Null)
                };
                self.nesting -= 1;
                r
            }
            RExpr::While(c, body) => {
                self.feat("loop");
                self.nesting += 1;
                let mut iters = 0u64;
                let mut continued = false;
                let r = (|| loop {
                    match self.expr(c)? {
                        V::Bool(true) => {}
                        V::Bool(false) => return Ok(()),
                        V::Unspec => return unspec("U8/U9: unspecified value used as condition"),
                        _ => return Err(Flow::Err(ErrKind::Type)),
                    }
                    iters += 1;
                    self.stats.iterations += 1;
                    let mut brk = false;
                    for s in body.iter() {
                        match self.stmt(s) {
                            Ok(_) => {}
                            Err(Flow::Break) => {
                                brk = true;
                                break;
                            }
                            Err(Flow::Continue) => {
                                continued = true;
                                break;
                            }
                            Err(f) => return Err(f),
                        }
                    }
                    if brk {
                        return Ok(());
                    }
                })();
                self.nesting -= 1;
                if continued && iters >= 2 {
                    self.stats.continue_in_2plus_iter_loop = true;
                }
                r?;
                // U8: the value of a loop is not documented
                Ok(V::Unspec)
            }
            RExpr::Array(items) => {
                self.feat("array");
                let mut v = Vec::new();
                for (k, x) in items.iter().enumerate() {
                    if k > 0 {
                        self.pending += 1;
                    }
                    let r = self.expr(x);
                    if k > 0 {
                        self.pending -= 1;
                    }
                    v.push(r?);
                }
                Ok(V::Arr(Rc::new(RefCell::new(v))))
            }
            RExpr::Index(l, i) => {
                let a = self.expr(l)?;
                self.pending += 1;
                let i = self.expr(i);
                self.pending -= 1;
                self.index_get(a, i?)
            }
            RExpr::Builtin(name, args) => {
                let mut v = Vec::new();
                for (k, x) in args.iter().enumerate() {
                    if k > 0 {
                        self.pending += 1;
                    }
                    let r = self.expr(x);
                    if k > 0 {
                        self.pending -= 1;
                    }
                    v.push(r?);
                }
                self.feat("builtin");
                self.builtin(name, v)
            }
            RExpr::Call(f, args) => {
                let mut v = Vec::new();
                for (k, x) in args.iter().enumerate() {
                    if k > 0 {
                        self.pending += 1;
                    }
                    let r = self.expr(x);
                    if k > 0 {
                        self.pending -= 1;
                    }
                    v.push(r?);
                }
                let callee = self.expr(f)?;
                self.feat("call");
                let f = match callee {
                    V::Func(f) => f,
                    V::Unspec => return unspec("U8/U9: unspecified value called"),
                    // U6: calling a non-function is an error of unspecified kind
                    _ => return Err(Flow::Err(ErrKind::Any)),
                };
                if v.len() != f.params.len() {
                    return unspec("U3: call with a different number of arguments than parameters");
                }
                if v.iter().any(|x| matches!(x, V::Unspec)) {
                    // passing it on is fine as long as it is never used; keep it
                }
                if self.acts.len() >= self.max_native_depth {
                    return unspec("U17: recursion deeper than the reference interpreter supports");
                }
                self.stats.calls += 1;
                if self.pending > 0 {
                    self.stats.call_with_pending = true;
                }
                let live = self.live_funcs.entry(f.id).or_insert(0);
                *live += 1;
                if *live >= 2 {
                    self.stats.same_fn_live_twice = true;
                }
                let mut act = Act { vars: HashMap::new(), func: f.id };
                for (p, x) in f.params.iter().zip(v) {
                    act.vars.insert(*p, x);
                }
                self.acts.push(act);
                self.stats.max_depth = self.stats.max_depth.max(self.acts.len());
                let (saved_pending, saved_nesting) = (self.pending, self.nesting);
                self.pending = 0;
                self.nesting = 0;
                let r = self.block_value(&f.body);
                self.pending = saved_pending;
                self.nesting = saved_nesting;
                let fid = self.acts.pop().map(|a| a.func).unwrap_or(0);
                *self.live_funcs.entry(fid).or_insert(1) -= 1;
                match r {
                    Ok(v) => Ok(v),
                    Err(Flow::Return(v)) => Ok(v),
                    // stop / volgende cannot leave a function (rejected statically)
                    Err(Flow::Break) | Err(Flow::Continue) => Err(Flow::Err(ErrKind::Syntax)),
                    Err(f) => Err(f),
                }
            }
        }
    }

    fn norm_index(&mut self, i: i64, len: usize) -> Option<usize> {
        if i < 0 || i as usize >= len {
            self.stats.negative_or_oob_index = true;
        }
        let j = if i < 0 { i as i128 + len as i128 } else { i as i128 };
        if j < 0 || j >= len as i128 {
            None
        } else {
            Some(j as usize)
        }
    }

    fn index_get(&mut self, a: V, i: V) -> R<V> {
        let i = match i {
            V::Int(i) => i,
            V::Unspec => return unspec("U8/U9: unspecified value used as index"),
            _ => return Err(Flow::Err(ErrKind::Type)),
        };
        match a {
            V::Arr(v) => {
                self.feat("array");
                let len = v.borrow().len();
                match self.norm_index(i, len) {
                    Some(j) => Ok(v.borrow()[j].clone()),
                    None => Err(Flow::Err(ErrKind::Index)),
                }
            }
            V::Str(s) => {
                self.feat("string");
                let chars: Vec<char> = s.borrow().chars().collect();
                match self.norm_index(i, chars.len()) {
                    Some(j) => Ok(V::str(&chars[j].to_string())),
                    None => Err(Flow::Err(ErrKind::Index)),
                }
            }
            V::Unspec => unspec("U8/U9: unspecified value indexed"),
            _ => Err(Flow::Err(ErrKind::Type)),
        }
    }

    fn index_set(&mut self, a: V, i: V, x: V) -> R<V> {
        let i = match i {
            V::Int(i) => i,
            V::Unspec => return unspec("U8/U9: unspecified value used as index"),
            _ => return Err(Flow::Err(ErrKind::Type)),
        };
        match a {
            V::Arr(v) => {
                let len = v.borrow().len();
                match self.norm_index(i, len) {
                    Some(j) => {
                        if Rc::strong_count(&v) > 2 {
                            self.stats.alias_write_seen = true;
                        }
                        v.borrow_mut()[j] = x.clone();
                        Ok(x)
                    }
                    None => Err(Flow::Err(ErrKind::Index)),
                }
            }
            V::Str(s) => {
                let mut chars: Vec<char> = s.borrow().chars().collect();
                match self.norm_index(i, chars.len()) {
                    Some(j) => match &x {
                        V::Str(r) => {
                            let rep: Vec<char> = r.borrow().chars().collect();
                            if rep.len() != 1 {
                                return unspec("U21: string element replaced by a string that is not one character long");
                            }
                            chars[j] = rep[0];
                            *s.borrow_mut() = chars.into_iter().collect();
                            Ok(x)
                        }
                        V::Unspec => unspec("U8/U9: unspecified value stored"),
                        _ => Err(Flow::Err(ErrKind::Type)),
                    },
                    None => Err(Flow::Err(ErrKind::Index)),
                }
            }
            V::Unspec => unspec("U8/U9: unspecified value indexed"),
            _ => Err(Flow::Err(ErrKind::Type)),
        }
    }

    /// text of a value as `print`/`string` show it; None where the documentation does not fix it (U12, U16)
    fn text(&self, v: &V) -> Option<String> {
        match v {
            V::Bool(b) => Some(if *b { "ja".into() } else { "nee".into() }),
            V::Int(i) => Some(i.to_string()),
            V::Float(f) => {
                if f.is_finite() && (f.abs() < 1e15 && (f.abs() > 1e-5 || *f == 0.0)) {
                    Some(display_float(*f))
                } else {
                    None
                }
            }
            V::Str(s) => Some(s.borrow().clone()),
            // arrays print as [a, b, ...] with every element as it prints by itself (examples/selectie-sorteer.nl);
            // an array that contains itself, null or a function has no documented text
            V::Arr(_) => self.array_text(v, &mut Vec::new()),
            V::Null | V::Func(_) | V::Unspec => None,
        }
    }

    fn array_text(&self, v: &V, path: &mut Vec<*const RefCell<Vec<V>>>) -> Option<String> {
        match v {
            V::Arr(a) => {
                let p = Rc::as_ptr(a);
                if path.contains(&p) {
                    return None;
                }
                path.push(p);
                let mut parts = Vec::new();
                for x in a.borrow().iter() {
                    parts.push(self.array_text(x, path)?);
                }
                path.pop();
                Some(format!("[{}]", parts.join(", ")))
            }
            other => self.text(other),
        }
    }

    fn builtin(&mut self, name: &str, args: Vec<V>) -> R<V> {
        if args.iter().any(|a| matches!(a, V::Unspec)) {
            return unspec("U8/U9: unspecified value passed to a builtin");
        }
        if name == "print" {
            if args.is_empty() {
                self.output.push('\n');
                return Ok(V::Null);
            }
            let mut texts = Vec::new();
            for a in &args {
                match self.text(a) {
                    Some(t) => texts.push(t),
                    None => return unspec("U12/U16: print of null, a function, an array that contains those or itself, or an extreme float"),
                }
            }
            let fmt = texts[0].clone();
            let holes = fmt.matches("{}").count();
            if texts.len() - 1 > holes {
                return unspec("C14: more print arguments than placeholders");
            }
            // one pass: the k-th placeholder of the format gets the k-th argument
            let mut out = String::new();
            let mut rest = fmt.as_str();
            let mut k = 1;
            while let Some(pos) = rest.find("{}") {
                if k >= texts.len() {
                    break;
                }
                out.push_str(&rest[..pos]);
                out.push_str(&texts[k]);
                k += 1;
                rest = &rest[pos + 2..];
            }
            out.push_str(rest);
            self.output.push_str(&out);
            self.output.push('\n');
            return Ok(V::Null);
        }
        if args.len() != 1 {
            return Err(Flow::Err(ErrKind::Argument));
        }
        let a = &args[0];
        match name {
            "type" => Ok(V::str(a.type_name())),
            "lengte" => match a {
                V::Str(s) => Ok(V::Int(s.borrow().chars().count() as i64)),
                V::Arr(v) => Ok(V::Int(v.borrow().len() as i64)),
                _ => Err(Flow::Err(ErrKind::Type)),
            },
            "bool" => match a {
                V::Null => Ok(V::Bool(false)),
                V::Bool(b) => Ok(V::Bool(*b)),
                V::Int(i) => Ok(V::Bool(*i > 0)),
                V::Float(f) => Ok(V::Bool(*f > 0.0)),
                V::Str(s) => Ok(V::Bool(!s.borrow().is_empty())),
                V::Arr(v) => Ok(V::Bool(!v.borrow().is_empty())),
                _ => Err(Flow::Err(ErrKind::Argument)),
            },
            "int" => match a {
                V::Null => Ok(V::Int(0)),
                V::Bool(b) => Ok(V::Int(*b as i64)),
                V::Int(i) => Ok(V::Int(*i)),
                V::Float(f) => {
                    if !f.is_finite() {
                        return unspec("U20: int of a non-finite float");
                    }
                    let t = f.trunc();
                    // MIN_INT = -2^60 is exactly representable; MAX_INT = 2^60 - 1 is not, so the upper bound is exclusive 2^60
                    if t >= MIN_INT as f64 && t < (1u64 << 60) as f64 {
                        Ok(V::Int(t as i64))
                    } else {
                        Err(Flow::Err(ErrKind::Any))
                    }
                }
                V::Str(s) => {
                    let s = s.borrow();
                    let t = s.trim_matches(|c: char| c == ' ');
                    if s.trim() != t {
                        return unspec("U20: int of text padded with other blanks than spaces");
                    }
                    let digits = t.strip_prefix('-').or_else(|| t.strip_prefix('+')).unwrap_or(t);
                    if !digits.is_empty() && digits.bytes().all(|b| b.is_ascii_digit()) {
                        if t.starts_with('+') {
                            return unspec("U20: int of text with an explicit plus sign");
                        }
                        match t.parse::<i128>() {
                            Ok(x) if x >= MIN_INT as i128 && x <= MAX_INT as i128 => Ok(V::Int(x as i64)),
                            _ => Err(Flow::Err(ErrKind::Any)),
                        }
                    } else if t.parse::<f64>().is_ok() || t.parse::<isize>().is_ok() {
                        unspec("U20: int of text that is not plain decimal digits")
                    } else {
                        Err(Flow::Err(ErrKind::Argument))
                    }
                }
                _ => Err(Flow::Err(ErrKind::Argument)),
            },
            "float" => match a {
                V::Null => Ok(V::Float(0.0)),
                V::Bool(b) => Ok(V::Float(if *b { 1.0 } else { 0.0 })),
                V::Int(i) => Ok(V::Float(*i as f64)),
                V::Float(f) => Ok(V::Float(*f)),
                V::Str(s) => {
                    let s = s.borrow();
                    let t = s.trim_matches(|c: char| c == ' ');
                    if s.trim() != t {
                        return unspec("U20: float of text padded with other blanks than spaces");
                    }
                    let body = t.strip_prefix('-').unwrap_or(t);
                    let plain = {
                        let mut parts = body.splitn(2, '.');
                        let ip = parts.next().unwrap_or("");
                        let fp = parts.next();
                        !ip.is_empty()
                            && ip.bytes().all(|b| b.is_ascii_digit())
                            && fp.map(|f| !f.is_empty() && f.bytes().all(|b| b.is_ascii_digit())).unwrap_or(true)
                    };
                    match t.parse::<f64>() {
                        Ok(x) if plain => Ok(V::Float(x)),
                        Ok(_) => unspec("U20: float of text that is not a plain decimal number"),
                        Err(_) => Err(Flow::Err(ErrKind::Argument)),
                    }
                }
                _ => Err(Flow::Err(ErrKind::Argument)),
            },
            "string" => match a {
                V::Null => Ok(V::str("")),
                V::Bool(b) => Ok(V::str(if *b { "true" } else { "false" })),
                V::Int(i) => Ok(V::str(&i.to_string())),
                V::Float(f) => match self.text(a) {
                    Some(t) => Ok(V::str(&t)),
                    None => {
                        let _ = f;
                        unspec("U16: text of a non-finite or extreme float")
                    }
                },
                // string of a string is that string (the same object; U10 forbids observing the identity)
                V::Str(s) => Ok(V::Str(s.clone())),
                _ => Err(Flow::Err(ErrKind::Argument)),
            },
            _ => unreachable!(),
        }
    }

    pub fn to_val(&self, v: &V, arrays: &mut Vec<*const RefCell<Vec<V>>>, funcs: &mut Vec<usize>) -> Val {
        match v {
            V::Null => Val::Null,
            V::Bool(b) => Val::Bool(*b),
            V::Int(i) => Val::Int(*i),
            V::Float(f) => Val::Float(fbits(*f)),
            V::Str(s) => Val::Str(s.borrow().clone()),
            V::Func(f) => {
                let pos = funcs.iter().position(|x| *x == f.id).unwrap_or_else(|| {
                    funcs.push(f.id);
                    funcs.len() - 1
                });
                Val::Func(pos)
            }
            V::Unspec => Val::Masked,
            V::Arr(a) => {
                let p = Rc::as_ptr(a);
                if let Some(id) = arrays.iter().position(|x| *x == p) {
                    return Val::Ref(id);
                }
                let id = arrays.len();
                arrays.push(p);
                let items: Vec<V> = a.borrow().clone();
                Val::Arr(id, items.iter().map(|x| self.to_val(x, arrays, funcs)).collect())
            }
        }
    }
}

/// Evaluates a program definitionally
pub fn run_reference(prog: &BlockStmt, budget: u64) -> RefObs {
    let mut rs = Resolver::new();
    let resolved = match rs.block(prog, true) {
        Ok(r) => r,
        Err((k, _)) => {
            return RefObs { outcome: RefOutcome::Error(k), output: String::new(), steps: 0, stats: Stats::default() };
        }
    };
    let mut it = Interp::new(budget);
    it.stats.shadow_outer_after_inner = rs.outer_after_inner;
    let mut last = V::Null;
    let mut last_is_expr = false;
    let mut flow: Option<Flow> = None;
    for s in resolved.iter() {
        last_is_expr = matches!(s, RStmt::Expr(_));
        match it.stmt(s) {
            Ok(v) => last = v,
            Err(f) => {
                flow = Some(f);
                break;
            }
        }
    }
    let outcome = match flow {
        Some(Flow::Err(k)) => RefOutcome::Error(k),
        Some(Flow::Unspec(r)) => RefOutcome::Unspecified(r),
        Some(Flow::Budget) => RefOutcome::Budget,
        Some(Flow::Return(_)) | Some(Flow::Break) | Some(Flow::Continue) => RefOutcome::Unspecified("control flow left the top level".into()),
        None => {
            if resolved.is_empty() {
                RefOutcome::Value(Val::Null)
            } else if !last_is_expr {
                RefOutcome::Unspecified("U1: the last top-level statement is not an expression statement".into())
            } else {
                let mut arrays = Vec::new();
                let mut funcs = Vec::new();
                RefOutcome::Value(it.to_val(&last, &mut arrays, &mut funcs))
            }
        }
    };
    // release cycles so that the reference interpreter itself does not leak
    RefObs { outcome, output: std::mem::take(&mut it.output), steps: it.steps, stats: it.stats.clone() }
}
