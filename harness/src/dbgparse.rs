//! Parser for Rust's `{:?}` rendering of nederlang's syntax tree, so that any text the
//! real parser accepts can be handed to the reference interpreter and to the transformers.
use crate::ast::*;

#[derive(Debug, Clone)]
pub enum D {
    /// Name, Name(args), Name { fields }
    Node(String, Vec<D>, Vec<(String, D)>),
    List(Vec<D>),
    Str(String),
    Num(String),
}

struct P<'a> {
    s: &'a [u8],
    i: usize,
}

impl<'a> P<'a> {
    fn ws(&mut self) {
        while self.i < self.s.len() && (self.s[self.i] == b' ' || self.s[self.i] == b'\n') {
            self.i += 1;
        }
    }
    fn peek(&mut self) -> Option<u8> {
        self.ws();
        self.s.get(self.i).copied()
    }
    fn eat(&mut self, c: u8) -> Result<(), String> {
        if self.peek() == Some(c) {
            self.i += 1;
            Ok(())
        } else {
            Err(format!("expected {:?} at {}", c as char, self.i))
        }
    }
    fn ident(&mut self) -> String {
        self.ws();
        let st = self.i;
        while self.i < self.s.len() && (self.s[self.i].is_ascii_alphanumeric() || self.s[self.i] == b'_') {
            self.i += 1;
        }
        String::from_utf8_lossy(&self.s[st..self.i]).to_string()
    }
    fn value(&mut self) -> Result<D, String> {
        match self.peek() {
            Some(b'[') => {
                self.i += 1;
                let mut v = Vec::new();
                loop {
                    if self.peek() == Some(b']') {
                        self.i += 1;
                        break;
                    }
                    v.push(self.value()?);
                    if self.peek() == Some(b',') {
                        self.i += 1;
                    }
                }
                Ok(D::List(v))
            }
            Some(b'"') => {
                self.i += 1;
                let text = std::str::from_utf8(&self.s[self.i..]).map_err(|e| e.to_string())?;
                let mut out = String::new();
                let mut it = text.char_indices();
                loop {
                    let (pos, c) = it.next().ok_or("unterminated string")?;
                    match c {
                        '"' => {
                            self.i += pos + 1;
                            break;
                        }
                        '\\' => {
                            let (_, e) = it.next().ok_or("bad escape")?;
                            match e {
                                'n' => out.push('\n'),
                                't' => out.push('\t'),
                                'r' => out.push('\r'),
                                '0' => out.push('\0'),
                                '\\' => out.push('\\'),
                                '"' => out.push('"'),
                                '\'' => out.push('\''),
                                'u' => {
                                    let mut hex = String::new();
                                    let (_, b) = it.next().ok_or("bad \\u")?;
                                    if b != '{' {
                                        return Err("bad \\u".into());
                                    }
                                    loop {
                                        let (_, h) = it.next().ok_or("bad \\u")?;
                                        if h == '}' {
                                            break;
                                        }
                                        hex.push(h);
                                    }
                                    let cp = u32::from_str_radix(&hex, 16).map_err(|e| e.to_string())?;
                                    out.push(char::from_u32(cp).ok_or("bad code point")?);
                                }
                                other => return Err(format!("unknown escape \\{other}")),
                            }
                        }
                        c => out.push(c),
                    }
                }
                Ok(D::Str(out))
            }
            Some(c) if c == b'-' || c.is_ascii_digit() => {
                let st = self.i;
                self.i += 1;
                while self.i < self.s.len()
                    && (self.s[self.i].is_ascii_alphanumeric() || self.s[self.i] == b'.' || self.s[self.i] == b'-' || self.s[self.i] == b'+')
                {
                    self.i += 1;
                }
                Ok(D::Num(String::from_utf8_lossy(&self.s[st..self.i]).to_string()))
            }
            Some(_) => {
                let name = self.ident();
                if name.is_empty() {
                    return Err(format!("unexpected input at {}", self.i));
                }
                // NaN / inf render as bare words in Debug of f64
                if name == "NaN" || name == "inf" {
                    return Ok(D::Num(name));
                }
                match self.peek() {
                    Some(b'(') => {
                        self.i += 1;
                        let mut v = Vec::new();
                        loop {
                            if self.peek() == Some(b')') {
                                self.i += 1;
                                break;
                            }
                            v.push(self.value()?);
                            if self.peek() == Some(b',') {
                                self.i += 1;
                            }
                        }
                        Ok(D::Node(name, v, vec![]))
                    }
                    Some(b'{') => {
                        self.i += 1;
                        let mut f = Vec::new();
                        loop {
                            if self.peek() == Some(b'}') {
                                self.i += 1;
                                break;
                            }
                            let k = self.ident();
                            self.eat(b':')?;
                            let v = self.value()?;
                            f.push((k, v));
                            if self.peek() == Some(b',') {
                                self.i += 1;
                            }
                        }
                        Ok(D::Node(name, vec![], f))
                    }
                    _ => Ok(D::Node(name, vec![], vec![])),
                }
            }
            None => Err("unexpected end".into()),
        }
    }
}

pub fn parse_debug(s: &str) -> Result<D, String> {
    let mut p = P { s: s.as_bytes(), i: 0 };
    let v = p.value()?;
    p.ws();
    if p.i != s.len() {
        return Err(format!("trailing input at {}", p.i));
    }
    Ok(v)
}

fn field<'a>(f: &'a [(String, D)], k: &str) -> Result<&'a D, String> {
    f.iter().find(|(n, _)| n == k).map(|(_, v)| v).ok_or(format!("missing field {k}"))
}

fn to_block(d: &D) -> Result<BlockStmt, String> {
    match d {
        D::List(v) => v.iter().map(to_stmt).collect(),
        _ => Err("expected list".into()),
    }
}

fn to_str(d: &D) -> Result<String, String> {
    match d {
        D::Str(s) => Ok(s.clone()),
        _ => Err("expected string".into()),
    }
}

fn to_stmt(d: &D) -> Result<Stmt, String> {
    match d {
        D::Node(n, a, _) => match (n.as_str(), a.len()) {
            ("Let", 2) => Ok(Stmt::Let(to_str(&a[0])?, to_expr(&a[1])?)),
            ("Return", 1) => Ok(Stmt::Return(to_expr(&a[0])?)),
            ("Expr", 1) => Ok(Stmt::Expr(to_expr(&a[0])?)),
            ("Block", 1) => Ok(Stmt::Block(to_block(&a[0])?)),
            ("Break", 0) => Ok(Stmt::Break),
            ("Continue", 0) => Ok(Stmt::Continue),
            _ => Err(format!("unknown statement {n}")),
        },
        _ => Err("expected statement".into()),
    }
}

fn to_expr(d: &D) -> Result<Expr, String> {
    let (n, a, f) = match d {
        D::Node(n, a, f) => (n.as_str(), a, f),
        _ => return Err("expected expression".into()),
    };
    let bx = |k: &str| -> Result<Box<Expr>, String> { Ok(Box::new(to_expr(field(f, k)?)?)) };
    let op = |k: &str| -> Result<Operator, String> {
        match field(f, k)? {
            D::Node(n, _, _) => Operator::from_name(n).ok_or(format!("unknown operator {n}")),
            _ => Err("expected operator".into()),
        }
    };
    Ok(match n {
        "Infix" => Expr::Infix { left: bx("left")?, operator: op("operator")?, right: bx("right")? },
        "Prefix" => Expr::Prefix { operator: op("operator")?, right: bx("right")? },
        "Int" => match field(f, "value")? {
            D::Num(s) => Expr::Int { value: s.parse().map_err(|e| format!("int {s}: {e}"))? },
            _ => return Err("int".into()),
        },
        "Float" => match field(f, "value")? {
            D::Num(s) => Expr::Float { value: s.parse().map_err(|e| format!("float {s}: {e}"))? },
            _ => return Err("float".into()),
        },
        "Bool" => match field(f, "value")? {
            D::Node(b, _, _) => Expr::Bool { value: b == "true" },
            _ => return Err("bool".into()),
        },
        "If" => Expr::If {
            condition: bx("condition")?,
            consequence: to_block(field(f, "consequence")?)?,
            alternative: match field(f, "alternative")? {
                D::Node(s, a, _) if s == "Some" && a.len() == 1 => Some(to_block(&a[0])?),
                D::Node(s, _, _) if s == "None" => None,
                _ => return Err("alternative".into()),
            },
        },
        "Identifier" => Expr::Identifier(to_str(a.first().ok_or("identifier")?)?),
        "Function" => Expr::Function {
            name: to_str(field(f, "name")?)?,
            parameters: match field(f, "parameters")? {
                D::List(v) => v.iter().map(to_str).collect::<Result<Vec<_>, _>>()?,
                _ => return Err("parameters".into()),
            },
            body: to_block(field(f, "body")?)?,
        },
        "Call" => Expr::Call {
            left: bx("left")?,
            arguments: match field(f, "arguments")? {
                D::List(v) => v.iter().map(to_expr).collect::<Result<Vec<_>, _>>()?,
                _ => return Err("arguments".into()),
            },
        },
        "Assign" => Expr::Assign { left: bx("left")?, right: bx("right")? },
        "String" => Expr::String { value: to_str(field(f, "value")?)? },
        "Array" => Expr::Array {
            values: match field(f, "values")? {
                D::List(v) => v.iter().map(to_expr).collect::<Result<Vec<_>, _>>()?,
                _ => return Err("values".into()),
            },
        },
        "Index" => Expr::Index { left: bx("left")?, index: bx("index")? },
        "While" => Expr::While { condition: bx("condition")?, body: to_block(field(f, "body")?)? },
        _ => return Err(format!("unknown expression {n}")),
    })
}

/// Parses a source text with the implementation's parser and converts the tree
pub fn parse_source(src: &str) -> Result<BlockStmt, String> {
    // (the parser may be the very thing that is broken: a panic in it is an error here, not the end of the harness)
    let tree = std::panic::catch_unwind(|| nederlang::parser::parse(src)).map_err(|_| "the parser panicked".to_string())?.map_err(|e| format!("{e:?}"))?;
    let dbg = format!("{tree:?}");
    let d = parse_debug(&dbg)?;
    to_block(&d)
}

/// a block from its Debug rendering
pub fn parse_debug_block(dbg: &str) -> Result<BlockStmt, String> {
    let d = parse_debug(dbg)?;
    to_block(&d)
}
