//! Bytecode decoding through the H4 opcode table (no opcode numbering is hard-coded here).
use nederlang::compiler::{Bytecode, Compiler};
use nederlang::object::Error;
use nederlang::verif;
use std::collections::BTreeMap;

#[derive(Clone, Debug)]
pub struct OpInfo {
    pub name: String,
    pub widths: Vec<usize>,
}

pub struct Table {
    pub ops: Vec<OpInfo>,
    pub by_name: BTreeMap<String, u8>,
}

impl Table {
    pub fn load() -> Table {
        let t = verif::opcode_table();
        let mut ops = Vec::new();
        let mut by_name = BTreeMap::new();
        for (b, name, widths) in t {
            assert_eq!(b as usize, ops.len());
            by_name.insert(name.clone(), b);
            ops.push(OpInfo { name, widths });
        }
        Table { ops, by_name }
    }
    pub fn byte(&self, name: &str) -> u8 {
        *self.by_name.get(name).unwrap_or_else(|| panic!("opcode {name} missing from the table"))
    }
}

#[derive(Clone, Debug)]
pub struct Ins {
    pub at: usize,
    pub op: u8,
    pub name: String,
    pub args: Vec<usize>,
    pub len: usize,
}

/// linear decode; Err(position, reason) when a byte is not an opcode or an operand is cut off
pub fn decode(code: &[u8], t: &Table) -> Result<Vec<Ins>, (usize, String)> {
    let mut out = Vec::new();
    let mut ip = 0;
    while ip < code.len() {
        let b = code[ip];
        let info = t.ops.get(b as usize).ok_or((ip, format!("byte {b} is not an opcode")))?;
        let mut args = Vec::new();
        let mut p = ip + 1;
        for w in &info.widths {
            if p + w > code.len() {
                return Err((ip, format!("operand of {} runs past the end of the code", info.name)));
            }
            let v = match w {
                1 => code[p] as usize,
                2 => code[p] as usize | (code[p + 1] as usize) << 8,
                _ => return Err((ip, "unsupported operand width".into())),
            };
            args.push(v);
            p += w;
        }
        out.push(Ins { at: ip, op: b, name: info.name.clone(), args, len: p - ip });
        ip = p;
    }
    Ok(out)
}

/// parse + compile with a fresh compiler (what `eval` does before running)
pub fn compile(src: &str) -> Result<Bytecode, Error> {
    let ast = nederlang::parser::parse(src)?;
    Compiler::new().compile_ast(&ast)
}

pub fn opcode_histogram(src: &str, t: &Table) -> Option<BTreeMap<String, usize>> {
    let r = std::panic::catch_unwind(|| compile(src));
    let code = match r {
        Ok(Ok(c)) => c,
        _ => return None,
    };
    let ins = decode(&code.instructions, t).ok()?;
    let mut h = BTreeMap::new();
    for i in ins {
        *h.entry(i.name).or_insert(0) += 1;
    }
    Some(h)
}
