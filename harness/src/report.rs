//! Evidence, violations, replay files, known findings, sharded execution.
use serde_json::{json, Value};
use std::collections::{BTreeMap, HashSet};
use std::hash::{Hash, Hasher};
use std::path::PathBuf;
use std::time::Instant;

#[derive(Clone, Copy, PartialEq, Debug)]
pub enum Tier {
    Quick,
    Thorough,
}

#[derive(Clone)]
pub struct Ctx {
    pub tier: Tier,
    pub seed: u64,
    pub shards: usize,
    /// strict mode (replay): known findings are not tolerated
    pub strict: bool,
    /// this process is a sub-run of another nlv process: print the report as JSON instead of finishing
    pub inner: bool,
    /// number of KNOWN-FINDING lines already printed by the reproducer replay
    pub known_printed: usize,
}

impl Ctx {
    pub fn pick<T: Copy + 'static>(&self, quick: T, thorough: T) -> T {
        let v = if self.tier == Tier::Quick { quick } else { thorough };
        // NLV_LIGHT (tools/kill_matrix.sh): a quarter of the generated cases of the quick tier; enumerations and directed
        // families are not affected. Used only to fill in the table of which check catches which seeded change.
        if self.tier == Tier::Quick && std::env::var("NLV_LIGHT").is_ok() {
            if let Some(x) = (&v as &dyn std::any::Any).downcast_ref::<u32>() {
                let y: u32 = (*x / 4).max(1);
                if let Some(z) = (&y as &dyn std::any::Any).downcast_ref::<T>() {
                    return *z;
                }
            }
        }
        v
    }
}

pub fn verif_dir() -> PathBuf {
    // the binary lives in /verif/harness/target/<profile>/nlv
    if let Ok(d) = std::env::var("VERIF_DIR") {
        return PathBuf::from(d);
    }
    let exe = std::env::current_exe().expect("current_exe");
    exe.ancestors()
        .find(|p| p.join("properties.jsonl").exists())
        .map(|p| p.to_path_buf())
        .unwrap_or_else(|| PathBuf::from("/verif"))
}

pub fn hash_str(s: &str) -> u64 {
    let mut h = std::collections::hash_map::DefaultHasher::new();
    s.hash(&mut h);
    h.finish()
}

#[derive(Clone, Debug)]
pub struct Violation {
    pub property: String,
    /// which sub-check of the property found it
    pub driver: String,
    /// class of the violation (used to match known findings)
    pub class: String,
    /// the reproducible case
    pub case: Value,
    pub expected: String,
    pub observed: String,
}

impl Violation {
    pub fn to_json(&self) -> Value {
        json!({
            "property": self.property,
            "driver": self.driver,
            "class": self.class,
            "case": self.case,
            "expected": self.expected,
            "observed": self.observed,
        })
    }
    pub fn from_json(v: &Value) -> Option<Violation> {
        Some(Violation {
            property: v.get("property")?.as_str()?.to_string(),
            driver: v.get("driver")?.as_str()?.to_string(),
            class: v.get("class")?.as_str()?.to_string(),
            case: v.get("case")?.clone(),
            expected: v.get("expected").and_then(|x| x.as_str()).unwrap_or("").to_string(),
            observed: v.get("observed").and_then(|x| x.as_str()).unwrap_or("").to_string(),
        })
    }
}

/// One line of known-findings.txt
#[derive(Clone, Debug)]
pub struct KnownFinding {
    pub property: String,
    pub id: String,
    pub class: String,
    pub shape: String,
    pub replay: String,
    pub what: String,
}

pub fn load_known_findings() -> Vec<KnownFinding> {
    let p = verif_dir().join("known-findings.txt");
    let text = std::fs::read_to_string(p).unwrap_or_default();
    let mut out = Vec::new();
    for line in text.lines() {
        let line = line.trim();
        if !line.starts_with("open:") {
            continue;
        }
        let (head, what) = match line.split_once("::") {
            Some((h, w)) => (h, w.trim().to_string()),
            None => (line, String::new()),
        };
        let mut kf = KnownFinding {
            property: String::new(),
            id: String::new(),
            class: String::new(),
            shape: String::new(),
            replay: String::new(),
            what,
        };
        // fields are key=value separated by " | " so that values may contain spaces
        for field in head["open:".len()..].split(" | ") {
            if let Some((k, v)) = field.trim().split_once('=') {
                let v = v.trim().to_string();
                match k.trim() {
                    "property" => kf.property = v,
                    "id" => kf.id = v,
                    "class" => kf.class = v,
                    "shape" => kf.shape = v,
                    "replay" => kf.replay = v,
                    _ => {}
                }
            }
        }
        out.push(kf);
    }
    out
}

pub struct Report {
    pub property: String,
    pub level: &'static str,
    pub rule: String,
    pub evaluations: u64,
    pub nontrivial: HashSet<u64>,
    pub samples: Vec<Value>,
    pub sample_cap: usize,
    pub classes: BTreeMap<String, u64>,
    pub violations: Vec<Violation>,
    pub exhaustive: bool,
    pub assumptions: Vec<String>,
    pub extra: BTreeMap<String, Value>,
    pub started: Instant,
}

impl Report {
    pub fn new(property: &str, level: &'static str, rule: &str) -> Report {
        Report {
            property: property.to_string(),
            level,
            rule: rule.to_string(),
            evaluations: 0,
            nontrivial: HashSet::new(),
            samples: Vec::new(),
            sample_cap: 12,
            classes: BTreeMap::new(),
            violations: Vec::new(),
            exhaustive: false,
            assumptions: Vec::new(),
            extra: BTreeMap::new(),
            started: Instant::now(),
        }
    }
    pub fn count(&mut self, class: &str) {
        *self.classes.entry(class.to_string()).or_insert(0) += 1;
    }
    pub fn count_n(&mut self, class: &str, n: u64) {
        *self.classes.entry(class.to_string()).or_insert(0) += n;
    }
    pub fn eval(&mut self) {
        self.evaluations += 1;
    }
    pub fn nontrivial(&mut self, key: &str) {
        self.nontrivial.insert(hash_str(key));
    }
    pub fn sample(&mut self, v: Value) {
        if self.samples.len() < self.sample_cap {
            self.samples.push(v);
        }
    }
    /// keeps a sample per class (first of each class), beyond the cap
    pub fn sample_class(&mut self, class: &str, v: Value) {
        let key = format!("sample:{class}");
        if !self.extra.contains_key(&key) {
            self.extra.insert(key, json!(true));
            self.samples.push(json!({"class": class, "case": v}));
        }
    }
    pub fn violation(&mut self, v: Violation) {
        // keep one per class+driver to bound the output
        if !self
            .violations
            .iter()
            .any(|x| x.class == v.class && x.driver == v.driver)
        {
            self.violations.push(v);
        }
    }
    pub fn merge(&mut self, other: Report) {
        self.evaluations += other.evaluations;
        self.nontrivial.extend(other.nontrivial);
        for s in other.samples {
            let is_class = s.get("class").is_some() && s.get("case").is_some();
            if is_class {
                let c = s["class"].as_str().unwrap_or("").to_string();
                let key = format!("sample:{c}");
                if !self.extra.contains_key(&key) {
                    self.extra.insert(key, json!(true));
                    self.samples.push(s);
                }
            } else if self.samples.len() < self.sample_cap {
                self.samples.push(s);
            }
        }
        for (k, v) in other.classes {
            *self.classes.entry(k).or_insert(0) += v;
        }
        for v in other.violations {
            self.violation(v);
        }
        for (k, v) in other.extra {
            if !k.starts_with("sample:") {
                self.extra.entry(k).or_insert(v);
            }
        }
    }
}

/// Runs `f(shard)` on `n` threads with big stacks and merges the reports
pub fn par_shards(
    n: usize,
    base: Report,
    f: impl Fn(usize, &mut Report) + Send + Sync + 'static,
) -> Report {
    let f = std::sync::Arc::new(f);
    // the calling thread only waits from here on
    crate::engine::note_current("done", "");
    let mut handles = Vec::new();
    for shard in 0..n {
        let f = f.clone();
        let (prop, level, rule) = (base.property.clone(), base.level, base.rule.clone());
        handles.push(
            std::thread::Builder::new()
                .stack_size(512 << 20)
                .spawn(move || {
                    crate::engine::install_gc_observer();
                    let mut r = Report::new(&prop, level, &rule);
                    f(shard, &mut r);
                    crate::engine::note_current("done", "");
                    r
                })
                .expect("spawn"),
        );
    }
    let mut out = base;
    for h in handles {
        match h.join() {
            Ok(r) => out.merge(r),
            Err(_) => {
                eprintln!("harness shard panicked");
                std::process::exit(2);
            }
        }
    }
    out
}

/// Writes the evidence file, the replay files and prints the verdict lines.
/// Returns the process exit code.
pub fn finish(ctx: &Ctx, mut rep: Report) -> i32 {
    let dir = verif_dir();
    let known = load_known_findings();
    let mut real: Vec<Violation> = Vec::new();
    let mut known_hits: BTreeMap<String, String> = BTreeMap::new();
    for v in std::mem::take(&mut rep.violations) {
        let hit = if ctx.strict {
            None
        } else {
            known.iter().find(|k| {
                k.property == v.property
                    && k.class == v.class
                    && crate::shapes::shape_matches(&k.shape, &v.case)
            })
        };
        match hit {
            Some(k) => {
                known_hits.insert(k.id.clone(), k.what.clone());
            }
            None => real.push(v),
        }
    }
    for (id, what) in &known_hits {
        println!("KNOWN-FINDING: property={} {} {}", rep.property, id, what);
    }
    let _ = std::fs::create_dir_all(dir.join("replays"));
    let _ = std::fs::create_dir_all(dir.join("evidence"));
    let mut vio_json = Vec::new();
    for v in &real {
        let h = hash_str(&format!("{}{}{}", v.driver, v.class, v.case));
        let name = format!("replays/{}-{:016x}.json", v.property, h);
        let path = dir.join(&name);
        let _ = std::fs::write(&path, serde_json::to_string_pretty(&v.to_json()).unwrap());
        println!("VIOLATION property={} replay={}", v.property, path.display());
        println!("  driver={} class={}", v.driver, v.class);
        let clip = |s: String| if s.chars().count() > 600 { format!("{}… [{} characters, full text in the replay file]", s.chars().take(600).collect::<String>(), s.chars().count()) } else { s };
        println!("  case={}", clip(v.case.to_string()));
        println!("  expected={}", clip(v.expected.clone()));
        println!("  observed={}", clip(v.observed.clone()));
        vio_json.push(json!({"driver": v.driver, "class": v.class, "replay": name}));
    }
    let wall = rep.started.elapsed().as_secs_f64();
    let mut coverage = json!({
        "evaluations": rep.evaluations,
        "distinct_nontrivial": rep.nontrivial.len(),
        "rule": rep.rule,
        "samples": rep.samples,
        "exhaustive": rep.exhaustive,
        "classes": rep.classes,
        "known_findings_hit": known_hits.keys().collect::<Vec<_>>(),
        "violation_list": vio_json,
    });
    for (k, v) in &rep.extra {
        if !k.starts_with("sample:") {
            coverage[k] = v.clone();
        }
    }
    let ev = json!({
        "property_id": rep.property,
        "tier": if ctx.tier == Tier::Quick { "quick" } else { "thorough" },
        "seed": ctx.seed,
        "level": rep.level,
        "coverage": coverage,
        "assumptions": rep.assumptions,
        "wall_s": (wall * 100.0).round() / 100.0,
        "violations": real.len(),
    });
    if !ctx.strict {
        let p = dir.join("evidence").join(format!("{}.json", rep.property));
        if let Err(e) = std::fs::write(&p, serde_json::to_string_pretty(&ev).unwrap()) {
            eprintln!("cannot write evidence {}: {e}", p.display());
            return 2;
        }
    }
    println!(
        "{}: tier={:?} seed={} evaluations={} distinct_nontrivial={} violations={} known={} wall={:.1}s",
        rep.property,
        ctx.tier,
        ctx.seed,
        rep.evaluations,
        rep.nontrivial.len(),
        real.len(),
        known_hits.len(),
        wall
    );
    if real.is_empty() {
        0
    } else {
        1
    }
}

/// Serialises the parts of a report a parent process merges
pub fn inner_json(rep: &Report) -> Value {
    json!({
        "evaluations": rep.evaluations,
        "nontrivial": rep.nontrivial.len(),
        "classes": rep.classes,
        "violations": rep.violations.iter().map(|v| v.to_json()).collect::<Vec<_>>(),
        "samples": rep.samples,
    })
}

/// Runs the same property in the binary of another build profile and merges what it found
pub fn run_inner(ctx: &Ctx, profile: &str, id: &str, rep: &mut Report) {
    run_inner_opt(ctx, profile, id, rep, false)
}

/// the build profile of the running binary (harness/target/<profile>/nlv)
pub fn current_profile() -> String {
    std::env::current_exe()
        .ok()
        .and_then(|p| p.parent().and_then(|d| d.file_name()).map(|n| n.to_string_lossy().to_string()))
        .unwrap_or_else(|| "checked".into())
}

/// `supervised`: the inner run gets its own supervisor, so that an input that kills it is reported as a violation
pub fn run_inner_opt(ctx: &Ctx, profile: &str, id: &str, rep: &mut Report, supervised: bool) {
    let exe = verif_dir().join("harness/target").join(profile).join("nlv");
    // this thread only waits while the other process works
    crate::engine::note_current("done", "");
    let out = std::process::Command::new(&exe)
        .arg(id)
        .arg("--tier")
        .arg(if ctx.tier == Tier::Quick { "quick" } else { "thorough" })
        .arg("--inner")
        .args(if supervised { vec!["--supervised"] } else { vec![] })
        .env_remove("NLV_JOURNAL_DIR")
        .env("VERIF_SEED", ctx.seed.to_string())
        .env("VERIF_SHARDS", ctx.shards.to_string())
        .output();
    let out = match out {
        Ok(o) => o,
        Err(e) => {
            eprintln!("cannot run {}: {e}", exe.display());
            std::process::exit(2)
        }
    };
    let text = String::from_utf8_lossy(&out.stdout);
    // the inner run's supervisor found an input that kills or hangs the process
    if out.status.code() == Some(1) {
        if let Some(path) = text.lines().find(|l| l.starts_with("VIOLATION ")).and_then(|l| l.split("replay=").nth(1)) {
            if let Some(mut viol) = std::fs::read_to_string(path.trim()).ok().and_then(|t| serde_json::from_str::<Value>(&t).ok()).and_then(|v| Violation::from_json(&v)) {
                viol.driver = format!("{}@{profile}", viol.driver);
                rep.violation(viol);
                return;
            }
        }
    }
    let line = text.lines().rev().find(|l| l.starts_with("INNER ")).unwrap_or_else(|| {
        eprintln!("inner run ({profile}) produced no report; status {:?}\n{}", out.status, String::from_utf8_lossy(&out.stderr));
        std::process::exit(2)
    });
    let v: Value = serde_json::from_str(&line[6..]).expect("inner json");
    let n = v["evaluations"].as_u64().unwrap_or(0);
    rep.evaluations += n;
    rep.count_n(&format!("{profile}-profile:evaluations"), n);
    if let Some(c) = v["classes"].as_object() {
        for (k, x) in c {
            rep.count_n(&format!("{profile}-profile:{k}"), x.as_u64().unwrap_or(0));
        }
    }
    for x in v["violations"].as_array().cloned().unwrap_or_default() {
        if let Some(mut viol) = Violation::from_json(&x) {
            viol.driver = format!("{}@{profile}", viol.driver);
            if viol.case.is_object() {
                viol.case["profile"] = json!(profile);
            }
            rep.violation(viol);
        }
    }
}
