//! Differential comparison of the implementation against the reference interpreter.
use crate::ast::*;
use crate::engine::*;
use crate::printer::print_canonical;
use crate::refint::*;

pub enum Verdict {
    Agree,
    /// not decided (reason): unspecified behaviour, budget, printer mismatch
    Discard(String),
    Violation { class: String, expected: String, observed: String },
}

pub struct DiffOut {
    pub src: String,
    pub verdict: Verdict,
    pub refobs: Option<RefObs>,
    pub obs: Option<Obs>,
    /// the implementation's parser does not read `src` back as the tree it was printed from
    pub tree_differs: bool,
}

pub const VM_BUDGET: u64 = 300_000;
pub const REF_BUDGET: u64 = 3_000_000;

/// class of a crash: panic message without numbers + location
pub fn crash_class(o: &Outcome) -> String {
    match o {
        Outcome::Panic(m) => {
            let loc = m.rsplit(" @ ").next().unwrap_or("");
            let loc = loc.rsplit('/').next().unwrap_or(loc);
            format!("panic@{loc}")
        }
        Outcome::Trap(m) => {
            let short: String = m.split(|c: char| c.is_ascii_digit()).next().unwrap_or(m).trim().to_string();
            format!("trap:{short}")
        }
        _ => "none".into(),
    }
}

pub fn compare(r: &RefObs, o: &Obs) -> Verdict {
    let expected = format!("{:?} | out={:?}", r.outcome, r.output);
    let observed = o.render();
    let viol = |class: &str| Verdict::Violation { class: class.to_string(), expected: expected.clone(), observed: observed.clone() };
    match &r.outcome {
        RefOutcome::Unspecified(rule) => {
            // even then the implementation must not crash (C05), but that is not this property's verdict
            return Verdict::Discard(format!("unspecified: {rule}"));
        }
        RefOutcome::Budget => return Verdict::Discard("budget (reference)".into()),
        _ => {}
    }
    if o.outcome == Outcome::Budget {
        return Verdict::Discard("budget (vm)".into());
    }
    if o.outcome.is_crash() {
        return viol(&format!("crash:{}", crash_class(&o.outcome)));
    }
    if let Some(e) = o.events.first() {
        let short: String = e.split(|c: char| c.is_ascii_digit()).next().unwrap_or(e).trim().to_string();
        return viol(&format!("event:{short}"));
    }
    match (&r.outcome, &o.outcome) {
        (RefOutcome::Value(a), Outcome::Value(b)) => {
            if !a.agrees(b) {
                return viol("mismatch:value");
            }
        }
        (RefOutcome::Error(a), Outcome::Error(b)) => {
            if !a.matches(b) {
                return viol("mismatch:error-kind");
            }
        }
        (RefOutcome::Value(_), Outcome::Error(_)) => return viol("mismatch:error-instead-of-value"),
        (RefOutcome::Error(_), Outcome::Value(_)) => return viol("mismatch:value-instead-of-error"),
        _ => return viol("mismatch:other"),
    }
    if r.output != o.output {
        return viol("mismatch:output");
    }
    Verdict::Agree
}

/// Prints the tree, checks that the implementation's parser reads the text back as the same
/// tree (otherwise the case is C07's business), runs both sides and compares.
pub fn diff_program(prog: &BlockStmt) -> DiffOut {
    let src = print_canonical(prog);
    diff_source(prog, src)
}

pub fn diff_source(prog: &BlockStmt, src: String) -> DiffOut {
    diff_source_budget(prog, src, VM_BUDGET, REF_BUDGET)
}

/// with explicit budgets (the fuzz targets use small ones: a coverage-guided search otherwise collects slow programs)
pub fn diff_program_budget(prog: &BlockStmt, vm_budget: u64, ref_budget: u64) -> DiffOut {
    diff_source_budget(prog, print_canonical(prog), vm_budget, ref_budget)
}

pub fn diff_source_budget(prog: &BlockStmt, src: String, vm_budget: u64, ref_budget: u64) -> DiffOut {
    crate::engine::note_current("parse", &src);
    // The printed text denotes `prog` (Appendix A). If the implementation's parser reads it as another tree, or not at
    // all, the case is not discarded: the reference still runs the tree the text was printed from, so a parser that
    // changes what a program means shows as a mismatch (a different tree with the same behaviour is unobservable).
    let tree_differs = match std::panic::catch_unwind(|| nederlang::parser::parse(&src)) {
        Ok(Ok(tree)) => format!("{tree:?}") != format!("{prog:?}"),
        // A text that the parser REFUSES is not judged here: generated programs can nest deeper than the front end
        // allows (a resource limit, U17), and whether a valid text is accepted at all is C07's question.
        Ok(Err(_)) => return DiffOut { src, verdict: Verdict::Discard("printed text is refused by the parser (nesting limit, or see C07)".into()), refobs: None, obs: None, tree_differs: true },
        // (a panicking parser is judged: the run below reports it)
        Err(_) => true,
    };
    let r = run_reference(prog, ref_budget);
    let o = run_eval(&src, &RunCfg { budget: vm_budget, audit_heap: true });
    let mut verdict = compare(&r, &o);
    if tree_differs {
        if let Verdict::Violation { expected, .. } = &mut verdict {
            expected.push_str(" | note: the implementation's parser does not read this text as the tree it was printed from");
        }
    }
    DiffOut { src, verdict, refobs: Some(r), obs: Some(o), tree_differs }
}

/// Differential run of a source text (parsed by the implementation's own parser)
pub fn diff_text(src: &str) -> Result<DiffOut, String> {
    let prog = crate::dbgparse::parse_source(src)?;
    let r = run_reference(&prog, REF_BUDGET);
    let o = run_eval(src, &RunCfg { budget: VM_BUDGET, audit_heap: true });
    let verdict = compare(&r, &o);
    Ok(DiffOut { src: src.to_string(), verdict, refobs: Some(r), obs: Some(o), tree_differs: false })
}
