//! Case runner: executes the implementation in-process under catch_unwind with the verif
//! hooks on, and turns what happened into a structural observation.
use nederlang::object::{Error, Object, Type};
use nederlang::verif;
use std::cell::RefCell;
use std::collections::HashMap;
use std::panic::{catch_unwind, AssertUnwindSafe};

#[derive(Clone, Debug, PartialEq, Eq, Hash, PartialOrd, Ord)]
pub enum ErrKind {
    Syntax,
    Reference,
    Type,
    Index,
    Argument,
    /// wildcard used by oracles (U6): any of the five kinds
    Any,
}

impl ErrKind {
    pub fn of(e: &Error) -> ErrKind {
        match e {
            Error::TypeError(_) => ErrKind::Type,
            Error::SyntaxError(_) => ErrKind::Syntax,
            Error::ReferenceError(_) => ErrKind::Reference,
            Error::IndexError(_) => ErrKind::Index,
            Error::ArgumentError(_) => ErrKind::Argument,
        }
    }
    pub fn name(&self) -> &'static str {
        match self {
            ErrKind::Syntax => "SyntaxError",
            ErrKind::Reference => "ReferenceError",
            ErrKind::Type => "TypeError",
            ErrKind::Index => "IndexError",
            ErrKind::Argument => "ArgumentError",
            ErrKind::Any => "AnyError",
        }
    }
    pub fn matches(&self, other: &ErrKind) -> bool {
        *self == ErrKind::Any || *other == ErrKind::Any || self == other
    }
}

/// Structural rendering of a value. Arrays carry an identity (number of first visit in a
/// depth-first walk) so that sharing and cycles are part of the comparison.
#[derive(Clone, Debug, PartialEq)]
pub enum Val {
    Null,
    Bool(bool),
    Int(i64),
    /// bit pattern; all NaNs are normalised to one pattern
    Float(u64),
    Str(String),
    Arr(usize, Vec<Val>),
    /// back/cross reference to an array already visited
    Ref(usize),
    /// function, numbered by first occurrence in the walk
    Func(usize),
    /// a value the oracle does not fix (masked)
    Masked,
}

pub fn fbits(f: f64) -> u64 {
    if f.is_nan() {
        0x7ff8_0000_0000_0000
    } else {
        f.to_bits()
    }
}

impl Val {
    pub fn render(&self) -> String {
        match self {
            Val::Null => "null".into(),
            Val::Bool(b) => (if *b { "ja" } else { "nee" }).into(),
            Val::Int(i) => format!("{i}"),
            Val::Float(b) => format!("float({:?})", f64::from_bits(*b)),
            Val::Str(s) => format!("{s:?}"),
            Val::Arr(id, v) => format!(
                "#{id}[{}]",
                v.iter().map(|x| x.render()).collect::<Vec<_>>().join(", ")
            ),
            Val::Ref(id) => format!("^#{id}"),
            Val::Func(n) => format!("fn{n}"),
            Val::Masked => "_".into(),
        }
    }
    /// equality in which Masked matches anything
    pub fn agrees(&self, other: &Val) -> bool {
        match (self, other) {
            (Val::Masked, _) | (_, Val::Masked) => true,
            (Val::Arr(a, x), Val::Arr(b, y)) => {
                a == b && x.len() == y.len() && x.iter().zip(y).all(|(p, q)| p.agrees(q))
            }
            _ => self == other,
        }
    }
}

#[derive(Clone, Debug, PartialEq)]
pub enum Outcome {
    Value(Val),
    Error(ErrKind),
    /// the VM budget was exhausted (inconclusive)
    Budget,
    /// panic (message, location) that is not a hook trap
    Panic(String),
    /// hook trap (probe or shadow heap)
    Trap(String),
}

impl Outcome {
    pub fn render(&self) -> String {
        match self {
            Outcome::Value(v) => format!("value {}", v.render()),
            Outcome::Error(k) => format!("error {}", k.name()),
            Outcome::Budget => "budget".into(),
            Outcome::Panic(m) => format!("PANIC {m}"),
            Outcome::Trap(m) => format!("TRAP {m}"),
        }
    }
    pub fn is_crash(&self) -> bool {
        matches!(self, Outcome::Panic(_) | Outcome::Trap(_))
    }
}

#[derive(Clone, Debug)]
pub struct Obs {
    pub outcome: Outcome,
    pub output: String,
    /// hook events recorded during the run (probes, shadow heap), including ones that did not unwind
    pub events: Vec<String>,
    pub ticks: u64,
    pub heap: HeapReport,
}

#[derive(Clone, Debug, Default, PartialEq)]
pub struct HeapReport {
    /// blocks allocated during the case
    pub allocated: usize,
    /// blocks still live after eval returned and the result graph was released
    pub leaked: usize,
    /// blocks the collector still managed when it was destroyed (F-GC2 accounting)
    pub left_managed: usize,
    /// objects of the result graph that were not live when returned
    pub dead_in_result: usize,
    /// number of collection cycles
    pub cycles: usize,
    /// cycles that started with >=1 reachable and >=1 unreachable managed object
    pub cycles_nontrivial: usize,
    /// objects freed by collection cycles
    pub freed_by_cycles: usize,
}

impl Obs {
    pub fn render(&self) -> String {
        let mut s = format!("{} | out={:?}", self.outcome.render(), self.output);
        if !self.events.is_empty() {
            s.push_str(&format!(" | events={:?}", self.events));
        }
        s
    }
    /// the comparable part: outcome + output
    pub fn same_as(&self, o: &Obs) -> bool {
        self.outcome == o.outcome && self.output == o.output
    }
}

thread_local! {
    static LAST_PANIC: RefCell<Option<String>> = const { RefCell::new(None) };
}

/// Installs a silent panic hook that records message and location per thread
pub fn install_panic_hook() {
    std::panic::set_hook(Box::new(|info| {
        let msg = if let Some(s) = info.payload().downcast_ref::<&str>() {
            s.to_string()
        } else if let Some(s) = info.payload().downcast_ref::<String>() {
            s.clone()
        } else if let Some(t) = info.payload().downcast_ref::<verif::Trap>() {
            format!("trap: {}", t.0)
        } else {
            "<non-string payload>".to_string()
        };
        let loc = info
            .location()
            .map(|l| format!("{}:{}", l.file(), l.line()))
            .unwrap_or_default();
        // keep the message short and free of addresses
        let first = msg.lines().next().unwrap_or("").to_string();
        if std::env::var("NLV_LOUD_PANIC").is_ok() {
            eprintln!("PANIC {first} @ {loc}\n{}", std::backtrace::Backtrace::force_capture());
        }
        LAST_PANIC.with(|p| *p.borrow_mut() = Some(format!("{first} @ {loc}")));
    }));
}

pub fn take_last_panic() -> Option<String> {
    LAST_PANIC.with(|p| p.borrow_mut().take())
}

/// strips addresses (0x…) from event texts so that they are comparable across runs
pub fn scrub(s: &str) -> String {
    let mut out = String::new();
    let mut it = s.chars().peekable();
    while let Some(c) = it.next() {
        if c == '0' && it.peek() == Some(&'x') {
            it.next();
            while it.peek().map(|c| c.is_ascii_hexdigit()).unwrap_or(false) {
                it.next();
            }
            out.push_str("0x…");
        } else {
            out.push(c);
        }
    }
    out
}

/// Classifies a caught unwind payload
pub fn classify_unwind(p: Box<dyn std::any::Any + Send>) -> Outcome {
    let lp = take_last_panic();
    if let Some(t) = p.downcast_ref::<verif::Trap>() {
        return Outcome::Trap(scrub(&t.0));
    }
    Outcome::Panic(scrub(&lp.unwrap_or_else(|| "<unknown panic>".into())))
}

/// Walks a returned object into a `Val`; collects the distinct heap objects of the graph
pub struct Walker {
    arrays: HashMap<usize, usize>,
    funcs: HashMap<[u32; 2], usize>,
    pub heap_objects: Vec<Object>,
    seen_heap: HashMap<usize, ()>,
    /// the value a run handed to its caller: released the way a caller releases it, with Object::free_recursive
    pub root: Option<Object>,
}

impl Walker {
    pub fn new() -> Self {
        Walker {
            arrays: HashMap::new(),
            funcs: HashMap::new(),
            heap_objects: Vec::new(),
            seen_heap: HashMap::new(),
            root: None,
        }
    }
    fn note_heap(&mut self, addr: usize, o: Object) {
        if self.seen_heap.insert(addr, ()).is_none() {
            self.heap_objects.push(o);
        }
    }
    pub fn walk(&mut self, o: Object) -> Val {
        match o.tag() {
            Type::Null => Val::Null,
            Type::Bool => Val::Bool(o.as_bool()),
            Type::Int => Val::Int(o.as_int() as i64),
            Type::Function => {
                let n = self.funcs.len();
                Val::Func(*self.funcs.entry(o.as_function()).or_insert(n))
            }
            Type::Float => {
                let v = o.as_f64();
                // identity of the box: the object word itself is not public; use a probe through as_f64's address-free API
                self.note_heap(obj_addr(o), o);
                Val::Float(fbits(v))
            }
            Type::String => {
                let s = o.as_str().to_string();
                self.note_heap(obj_addr(o), o);
                Val::Str(s)
            }
            Type::Array => {
                let addr = obj_addr(o);
                if let Some(id) = self.arrays.get(&addr) {
                    return Val::Ref(*id);
                }
                let id = self.arrays.len();
                self.arrays.insert(addr, id);
                self.note_heap(addr, o);
                let items: Vec<Object> = o.as_vec().clone();
                let vals = items.into_iter().map(|x| self.walk(x)).collect();
                Val::Arr(id, vals)
            }
        }
    }
}

/// Address of the heap box of an object (Object is a transparent one-word wrapper)
pub fn obj_addr(o: Object) -> usize {
    let w: usize = unsafe { std::mem::transmute::<Object, usize>(o) };
    w & !0b111
}

pub fn obj_word(o: Object) -> usize {
    unsafe { std::mem::transmute::<Object, usize>(o) }
}

pub struct RunCfg {
    pub budget: u64,
    /// free the result graph and audit the ledger
    pub audit_heap: bool,
}

impl Default for RunCfg {
    fn default() -> Self {
        RunCfg {
            budget: 200_000,
            audit_heap: true,
        }
    }
}

#[derive(Default, Clone)]
struct GcStats {
    cycles: usize,
    nontrivial: usize,
    freed: usize,
    left_managed: Vec<usize>,
    pending_managed: usize,
    violations: Vec<String>,
}

thread_local! {
    static GCSTATS: RefCell<GcStats> = RefCell::new(GcStats::default());
}

fn reachable_set(roots: &[&[Object]]) -> HashMap<usize, ()> {
    let mut seen = HashMap::new();
    let mut work: Vec<Object> = Vec::new();
    for r in roots {
        for o in r.iter() {
            work.push(*o);
        }
    }
    while let Some(o) = work.pop() {
        if !o.is_heap_allocated() {
            continue;
        }
        let a = obj_addr(o);
        if seen.contains_key(&a) {
            continue;
        }
        // only traverse live blocks (a dead one is reported by the deref hook elsewhere)
        if verif::heap_is_live(o) != Some(true) {
            seen.insert(a, ());
            continue;
        }
        seen.insert(a, ());
        if o.tag() == Type::Array {
            for x in o.as_vec().iter() {
                work.push(*x);
            }
        }
    }
    seen
}

/// Installs the collector observer that evaluates the pre/post-conditions of every cycle:
/// * C03: every object reachable from the roots at the start is live at the end
/// * C04: at the end the managed set contains nothing unreachable from the roots
pub fn install_gc_observer() {
    thread_local! { static START: RefCell<Option<(Vec<usize>, usize)>> = const { RefCell::new(None) }; }
    verif::set_gc_observer(Some(Box::new(|ev| match ev {
        verif::GcEvent::RunStart { roots, managed } => {
            if managed.is_empty() {
                // nothing is managed: the cycle is a no-op (and the collector returns at once)
                GCSTATS.with(|g| g.borrow_mut().cycles += 1);
                START.with(|s| *s.borrow_mut() = None);
                return;
            }
            let reach = reachable_set(roots);
            let managed_reach = managed
                .iter()
                .filter(|o| reach.contains_key(&obj_addr(**o)))
                .count();
            let managed_unreach = managed.len() - managed_reach;
            GCSTATS.with(|g| {
                let mut g = g.borrow_mut();
                g.cycles += 1;
                if managed_reach > 0 && managed_unreach > 0 {
                    g.nontrivial += 1;
                }
                g.pending_managed = managed.len();
            });
            let mut v: Vec<usize> = reach.keys().copied().collect();
            v.sort();
            START.with(|s| *s.borrow_mut() = Some((v, managed.len())));
        }
        verif::GcEvent::RunEnd { roots, managed } => {
            let start = START.with(|s| s.borrow_mut().take());
            let reach_now = reachable_set(roots);
            let mut viol = Vec::new();
            if let Some((reach_before, n_before)) = start {
                for a in reach_before {
                    let o: Object = unsafe { std::mem::transmute::<usize, Object>(a | 4) };
                    if verif::heap_is_live(o) == Some(false) {
                        viol.push("gc: object reachable from the roots was freed by the cycle".to_string());
                        break;
                    }
                }
                GCSTATS.with(|g| g.borrow_mut().freed += n_before.saturating_sub(managed.len()));
            }
            for o in managed.iter() {
                if !reach_now.contains_key(&obj_addr(*o)) {
                    viol.push("gc: unreachable object still managed after the cycle".to_string());
                    break;
                }
            }
            if !viol.is_empty() {
                GCSTATS.with(|g| g.borrow_mut().violations.extend(viol));
            }
        }
        verif::GcEvent::Destroyed { managed } => {
            GCSTATS.with(|g| {
                let mut g = g.borrow_mut();
                for o in managed.iter() {
                    g.left_managed.push(obj_word(*o));
                }
            });
        }
    })));
}

/// Prepares the thread-local hook state for one case
pub fn case_begin(budget: u64) {
    verif::heap_enable(true);
    verif::heap_reset();
    verif::take_events();
    verif::set_boundaries(None);
    verif::set_budget(budget);
    verif::capture_start();
    take_last_panic();
    GCSTATS.with(|g| *g.borrow_mut() = GcStats::default());
}

fn classify_result(r: Result<Object, Error>, w: &mut Walker) -> Outcome {
    match r {
        Ok(o) => match catch_unwind(AssertUnwindSafe(|| {
            w.root = Some(o);
            w.walk(o)
        })) {
            Ok(v) => Outcome::Value(v),
            Err(p) => match classify_unwind(p) {
                Outcome::Trap(m) => Outcome::Trap(format!("in result graph: {m}")),
                Outcome::Panic(m) => Outcome::Panic(format!("in result graph: {m}")),
                o => o,
            },
        },
        Err(Error::TypeError(m)) if m == verif::BUDGET_MSG => Outcome::Budget,
        Err(e) => Outcome::Error(ErrKind::of(&e)),
    }
}

/// Finishes a case: releases the result graph (each distinct object once), takes the
/// F-GC2 leftovers into account, and audits the ledger.
pub fn case_end(outcome: Outcome, walker: Walker, ticks: u64) -> Obs {
    let output = verif::capture_take();
    let mut heap = HeapReport::default();
    let stats = GCSTATS.with(|g| g.borrow().clone());
    heap.cycles = stats.cycles;
    heap.cycles_nontrivial = stats.nontrivial;
    heap.freed_by_cycles = stats.freed;
    heap.allocated = verif::heap_total();
    // release the result graph: the caller's half of C04. The caller has one way to do that, Object::free_recursive, so
    // that is what is used (a result of which parts are already dead is not touched: that is reported as such)
    for o in &walker.heap_objects {
        if verif::heap_is_live(*o) != Some(true) {
            heap.dead_in_result += 1;
        }
    }
    if heap.dead_in_result == 0 {
        match walker.root {
            Some(root) => {
                let _ = catch_unwind(AssertUnwindSafe(|| root.free_recursive()));
            }
            None => {
                // (no single root: objects collected by hand, released one by one)
                for o in &walker.heap_objects {
                    let _ = catch_unwind(AssertUnwindSafe(|| o.free()));
                }
            }
        }
    }
    // F-GC2 accounting: what the collector still managed when it was destroyed is
    // released by the harness, so that every *other* leak still shows up below
    let mut left = 0;
    for w in &stats.left_managed {
        let o: Object = unsafe { std::mem::transmute::<usize, Object>(*w) };
        if verif::heap_is_live(o) == Some(true) {
            left += 1;
            let _ = catch_unwind(AssertUnwindSafe(|| o.free()));
        }
    }
    heap.left_managed = left;
    heap.leaked = verif::heap_live();
    let mut events: Vec<String> = verif::take_events().iter().map(|e| scrub(e)).collect();
    events.extend(stats.violations.iter().cloned());
    verif::heap_reset();
    verif::set_budget(u64::MAX);
    Obs {
        outcome,
        output,
        events,
        ticks,
        heap,
    }
}

/// Evaluates a program text with `nederlang::eval` under the hooks
pub fn run_eval(src: &str, cfg: &RunCfg) -> Obs {
    run_eval_bounds(src, cfg, None)
}

/// `run_eval` with the instruction boundaries of the program's bytecode supplied to the fetch probe
pub fn run_eval_bounds(src: &str, cfg: &RunCfg, bounds: Option<Vec<bool>>) -> Obs {
    note_current("eval", src);
    case_begin(cfg.budget);
    verif::set_boundaries(bounds);
    let r = catch_unwind(AssertUnwindSafe(|| nederlang::eval(src)));
    let ticks = verif::ticks();
    let mut w = Walker::new();
    let outcome = match r {
        Ok(r) => classify_result(r, &mut w),
        Err(p) => classify_unwind(p),
    };
    case_end(outcome, w, ticks)
}

/// `run_eval` for results of any size and depth: the returned value is not turned into a `Val`
/// (which is a recursive structure); its heap objects are collected with a work list and released, and the
/// outcome of a successful run is `Value(Masked)`. For inputs whose result is irrelevant to the check (C05 scale inputs).
pub fn run_eval_shallow(src: &str, budget: u64) -> Obs {
    note_current(if SMALL_STACK.with(|s| s.get()) { "eval8s" } else { "evals" }, src);
    case_begin(budget);
    let r = catch_unwind(AssertUnwindSafe(|| nederlang::eval(src)));
    let ticks = verif::ticks();
    let mut w = Walker::new();
    let outcome = match r {
        Ok(Ok(o)) => {
            w.root = Some(o);
            let mut seen: HashMap<usize, ()> = HashMap::new();
            let mut work = vec![o];
            while let Some(x) = work.pop() {
                if !x.is_heap_allocated() || seen.insert(obj_addr(x), ()).is_some() {
                    continue;
                }
                w.heap_objects.push(x);
                if verif::heap_is_live(x) == Some(true) && x.tag() == Type::Array {
                    work.extend(x.as_vec().iter().copied());
                }
            }
            Outcome::Value(Val::Masked)
        }
        Ok(Err(Error::TypeError(m))) if m == verif::BUDGET_MSG => Outcome::Budget,
        Ok(Err(e)) => Outcome::Error(ErrKind::of(&e)),
        Err(p) => classify_unwind(p),
    };
    case_end(outcome, w, ticks)
}

/// Runs `f` on a thread with a large stack and returns its result
pub fn with_big_stack<T: Send + 'static>(f: impl FnOnce() -> T + Send + 'static) -> T {
    std::thread::Builder::new()
        .stack_size(512 << 20)
        .spawn(f)
        .expect("spawn")
        .join()
        .expect("harness thread panicked")
}

thread_local! {
    static SNAPSHOT: RefCell<Option<Vec<Val>>> = const { RefCell::new(None) };
}

/// Like `run_eval`, and additionally walks the first `n` global variables at the moment the
/// run ends (H7: before the collector is dropped). The values share one walker, so aliasing
/// between the variables is part of the snapshot.
pub fn run_eval_snapshot(src: &str, cfg: &RunCfg, n: usize) -> (Obs, Option<Vec<Val>>) {
    SNAPSHOT.with(|s| *s.borrow_mut() = None);
    verif::set_exit_observer(Some(Box::new(move |globals: &[Object], _stack: &[Object]| {
        let r = catch_unwind(AssertUnwindSafe(|| {
            let mut w = Walker::new();
            globals.iter().take(n).map(|o| w.walk(*o)).collect::<Vec<Val>>()
        }));
        if let Ok(v) = r {
            SNAPSHOT.with(|s| *s.borrow_mut() = Some(v));
        }
    })));
    let o = run_eval(src, cfg);
    verif::set_exit_observer(None);
    let snap = SNAPSHOT.with(|s| s.borrow_mut().take());
    (o, snap)
}

// ---------------------------------------------------------------------------------------
// current-case journal: lets the supervising process name the input that killed a worker

static JOURNAL_ON: std::sync::atomic::AtomicBool = std::sync::atomic::AtomicBool::new(false);
static JOURNAL_SEQ: std::sync::atomic::AtomicUsize = std::sync::atomic::AtomicUsize::new(0);

thread_local! {
    static JOURNAL: RefCell<Option<std::fs::File>> = const { RefCell::new(None) };
}

pub fn journal_dir() -> std::path::PathBuf {
    if let Ok(d) = std::env::var("NLV_JOURNAL_DIR") {
        return std::path::PathBuf::from(d);
    }
    crate::report::verif_dir().join("work").join("current").join(std::process::id().to_string())
}

pub fn journal_enable() {
    let _ = std::fs::create_dir_all(journal_dir());
    JOURNAL_ON.store(true, std::sync::atomic::Ordering::Relaxed);
}

thread_local! {
    /// set on threads that evaluate with the platform's default stack size (deep-nesting inputs)
    pub static SMALL_STACK: std::cell::Cell<bool> = const { std::cell::Cell::new(false) };
}

/// Records the input that is about to be handed to the implementation (tag: eval | eval8 | parse | lex)
pub fn note_current(tag: &str, text: &str) {
    use std::io::{Seek, SeekFrom, Write};
    if !JOURNAL_ON.load(std::sync::atomic::Ordering::Relaxed) {
        return;
    }
    let tag = if tag == "eval" && SMALL_STACK.with(|s| s.get()) { "eval8" } else { tag };
    JOURNAL.with(|j| {
        let mut j = j.borrow_mut();
        if j.is_none() {
            let n = JOURNAL_SEQ.fetch_add(1, std::sync::atomic::Ordering::Relaxed);
            let p = journal_dir().join(format!("{}-{}.txt", std::process::id(), n));
            *j = std::fs::File::create(p).ok();
        }
        if let Some(f) = j.as_mut() {
            let _ = f.seek(SeekFrom::Start(0));
            let _ = f.write_all(tag.as_bytes());
            let _ = f.write_all(b"\n");
            let _ = f.write_all(text.as_bytes());
            let _ = f.set_len((tag.len() + 1 + text.len()) as u64);
        }
    });
}

/// Runs the action a journal entry describes (in a sacrificial process)
pub fn probe(tag: &str, text: &str) {
    match tag {
        "parse" => {
            let _ = catch_unwind(|| nederlang::parser::parse(text).map(|t| t.len()));
        }
        "lex" => {
            let _ = catch_unwind(|| verif::tokens(text));
        }
        "history" => {
            if let Some(ops) = serde_json::from_str::<serde_json::Value>(text).ok().and_then(|v| crate::props::c03::ops_from_json(&v)) {
                let _ = crate::props::c03::run_history(&ops, true);
            }
        }
        "session" => {
            if let Ok(lines) = serde_json::from_str::<Vec<(String, u64)>>(text) {
                install_gc_observer();
                let mut s = session_begin();
                for (l, b) in lines {
                    let _ = s.line(&l, b);
                }
                s.end();
            }
        }
        "eval8s" => {
            let text = text.to_string();
            let h = std::thread::Builder::new().stack_size(8 << 20).spawn(move || {
                install_gc_observer();
                let _ = run_eval_shallow(&text, 200_000_000);
            });
            let _ = h.expect("spawn").join();
        }
        "evals" => {
            install_gc_observer();
            let _ = run_eval_shallow(text, 200_000_000);
        }
        "eval8" => {
            // the platform's default stack for a main thread
            let text = text.to_string();
            let h = std::thread::Builder::new().stack_size(8 << 20).spawn(move || {
                install_gc_observer();
                let _ = run_eval(&text, &RunCfg { budget: 30_000_000, audit_heap: true });
            });
            let _ = h.expect("spawn").join();
        }
        _ => {
            install_gc_observer();
            let _ = run_eval(text, &RunCfg { budget: 30_000_000, audit_heap: true });
        }
    }
}

// ---------------------------------------------------------------------------------------
// retained sessions (C17): one compiler and one VM for several lines, as the interactive prompt does

pub struct Session {
    compiler: Option<nederlang::compiler::Compiler>,
    vm: Option<nederlang::vm::VM>,
    /// the lines so far with their budgets (journalled, so that a dying worker can be attributed to its session)
    history: Vec<(String, u64)>,
    /// C02: verify the bytecode of every line statically (all paths) and give its instruction boundaries to the fetch probe
    pub verify: Option<crate::bytecode::Table>,
    /// what the verifier found, per line: (line number, class, detail)
    pub findings: Vec<(usize, String, String)>,
    /// globals declared by the lines so far (the code that declared them may have been dropped by the compiler)
    globals_seen: usize,
    /// C04: the heap objects of the results the lines handed to the caller (each once)
    handed: Vec<Object>,
}

pub fn session_begin() -> Session {
    verif::heap_enable(true);
    verif::heap_reset();
    verif::take_events();
    verif::set_boundaries(None);
    take_last_panic();
    GCSTATS.with(|g| *g.borrow_mut() = GcStats::default());
    Session { compiler: Some(nederlang::compiler::Compiler::new()), vm: Some(nederlang::vm::VM::new()), history: Vec::new(), verify: None, findings: Vec::new(), globals_seen: 0, handed: Vec::new() }
}

impl Session {
    /// parse, compile and run one line on the retained compiler and VM
    pub fn line(&mut self, text: &str, budget: u64) -> Obs {
        self.history.push((text.to_string(), budget));
        if JOURNAL_ON.load(std::sync::atomic::Ordering::Relaxed) {
            note_current("session", &serde_json::json!(self.history).to_string());
        }
        verif::set_budget(budget);
        verif::capture_start();
        verif::take_events();
        let compiler = self.compiler.as_mut().unwrap();
        let vm = self.vm.as_mut().unwrap();
        let table = self.verify.as_ref();
        let line_no = self.history.len() - 1;
        let mut found: Vec<(usize, String, String)> = Vec::new();
        let known_globals = self.globals_seen;
        let mut globals_now = known_globals;
        let r = catch_unwind(AssertUnwindSafe(|| {
            let ast = nederlang::parser::parse(text)?;
            let code = compiler.compile_ast(&ast)?;
            if let Some(t) = table {
                let vr = crate::verifier::verify_after(&code, t, known_globals);
                globals_now = vr.globals;
                for f in vr.findings {
                    found.push((line_no, f.class, f.detail));
                }
                verif::set_boundaries(crate::verifier::boundaries(&code, t));
            }
            vm.run(code)
        }));
        verif::set_boundaries(None);
        self.globals_seen = globals_now;
        self.findings.extend(found);
        let ticks = verif::ticks();
        let mut w = Walker::new();
        let outcome = match r {
            Ok(r) => classify_result(r, &mut w),
            Err(p) => classify_unwind(p),
        };
        // the result is not released: it may be a value the session still refers to (the prompt only prints it)
        for o in w.heap_objects.iter() {
            if !self.handed.iter().any(|h| obj_addr(*h) == obj_addr(*o)) {
                self.handed.push(*o);
            }
        }
        let output = verif::capture_take();
        let events: Vec<String> = verif::take_events().iter().map(|e| scrub(e)).collect();
        verif::set_budget(u64::MAX);
        Obs { outcome, output, events, ticks, heap: HeapReport::default() }
    }
    /// Ends the session like `end` and audits the ledger (C04): returns (events while the machine and the compiler are
    /// dropped, blocks still live afterwards that no result handed to the caller reaches, events while the caller
    /// releases those results, blocks live after that)
    pub fn end_audit(mut self) -> (Vec<String>, usize, Vec<String>, usize) {
        let vm = self.vm.take();
        let compiler = self.compiler.take();
        let _ = catch_unwind(AssertUnwindSafe(move || {
            drop(vm);
            drop(compiler);
        }));
        let drop_events: Vec<String> = verif::take_events().iter().map(|e| scrub(e)).collect();
        // what the caller owns: everything the handed-over results reach (live blocks only)
        let mut owned: HashMap<usize, Object> = HashMap::new();
        let mut work: Vec<Object> = self.handed.clone();
        while let Some(o) = work.pop() {
            if !o.is_heap_allocated() || owned.contains_key(&obj_addr(o)) || verif::heap_is_live(o) != Some(true) {
                continue;
            }
            owned.insert(obj_addr(o), o);
            if o.tag() == Type::Array {
                work.extend(o.as_vec().iter().copied());
            }
        }
        let live: Vec<usize> = verif::heap_live_blocks();
        let unowned = live.iter().filter(|a| !owned.contains_key(a)).count();
        let mut addrs: Vec<usize> = owned.keys().copied().collect();
        addrs.sort();
        for a in addrs {
            let o = owned[&a];
            let _ = catch_unwind(AssertUnwindSafe(|| o.free()));
        }
        let release_events: Vec<String> = verif::take_events().iter().map(|e| scrub(e)).collect();
        let left = verif::heap_live();
        verif::heap_reset();
        (drop_events, unowned, release_events, left)
    }
    pub fn end(mut self) {
        let vm = self.vm.take();
        let compiler = self.compiler.take();
        let _ = catch_unwind(AssertUnwindSafe(move || {
            drop(vm);
            drop(compiler);
        }));
        verif::take_events();
        verif::heap_reset();
    }
}
