//! Type-directed, environment-tracking program generator (DESIGN.md 4.4). Every decision is
//! read from a choice tape, so proptest shrinks programs and libFuzzer can drive the same code.
use crate::ast::*;
use crate::tape::Tape;

#[derive(Clone, Debug, PartialEq)]
pub enum Ty {
    Int,
    Float,
    Bool,
    Str,
    /// array with element type and (static) length — arrays never change length in this language
    Arr(Box<Ty>, usize),
    Fun(Vec<Ty>, Box<Ty>),
    Null,
}

#[derive(Clone, Debug)]
pub struct Profile {
    pub name: &'static str,
    pub max_depth: usize,
    pub max_top_stmts: usize,
    pub max_block_stmts: usize,
    /// probability (of 256) that the program carries one injected fault
    pub fault: u32,
    pub funcs: bool,
    pub loops: bool,
    pub floats: bool,
    pub strings: bool,
    pub arrays: bool,
    pub prints: bool,
    /// C10: function bodies mention only their own parameters, locals and builtins
    pub closed: bool,
    /// weight of block statements / shadowing (C09)
    pub blocks: u32,
    /// maximal recursion argument
    pub rec_depth: i64,
    /// heap-heavy expressions (C03/C04)
    pub alloc_heavy: bool,
    /// allow string element assignment (U10 discipline applied)
    pub str_mut: bool,
    /// C12: call arguments are wrapped in a tracing identity `spoor(id, v)` so that evaluation order is visible
    pub trace_args: bool,
    /// C03/C04: after the final expression statement some declarations with calls may follow, so that the value of the
    /// last expression statement is only kept alive as 'the last statement's value' while collections run (the result is then U1)
    pub tail_decls: bool,
}

impl Profile {
    pub fn general() -> Profile {
        Profile {
            name: "general",
            max_depth: 4,
            max_top_stmts: 14,
            max_block_stmts: 5,
            fault: 40,
            funcs: true,
            loops: true,
            floats: true,
            strings: true,
            arrays: true,
            prints: true,
            closed: false,
            blocks: 20,
            rec_depth: 5,
            alloc_heavy: false,
            str_mut: true,
            trace_args: false,
            tail_decls: false,
        }
    }
    pub fn scopes() -> Profile {
        Profile { name: "scopes", blocks: 90, max_depth: 5, floats: false, fault: 0, ..Profile::general() }
    }
    pub fn closed() -> Profile {
        Profile { name: "closed", closed: true, fault: 25, ..Profile::general() }
    }
    pub fn control() -> Profile {
        Profile { name: "control", max_depth: 5, floats: false, strings: false, fault: 15, ..Profile::general() }
    }
    pub fn calls() -> Profile {
        Profile { name: "calls", max_depth: 4, floats: false, fault: 15, rec_depth: 8, trace_args: true, ..Profile::general() }
    }
    pub fn alloc() -> Profile {
        Profile { name: "alloc", alloc_heavy: true, fault: 30, tail_decls: true, ..Profile::general() }
    }
    pub fn by_name(n: &str) -> Profile {
        match n {
            "scopes" => Profile::scopes(),
            "closed" => Profile::closed(),
            "control" => Profile::control(),
            "calls" => Profile::calls(),
            "alloc" => Profile::alloc(),
            _ => Profile::general(),
        }
    }
}

#[derive(Clone, Debug)]
struct Var {
    name: String,
    ty: Ty,
    /// loop counters are never assigned by generated code other than the increment
    readonly: bool,
    /// holds an unspecified value (loop in value position): never read
    dead: bool,
    /// string that may be modified in place (U10 discipline)
    mut_str: bool,
}

struct FnCtx {
    scopes: Vec<Vec<Var>>,
    is_fn: bool,
    ret: Option<Ty>,
    loops: usize,
    /// recursion: (function name, parameter types, return type) — only when the first parameter is the depth
    rec: Option<(String, Vec<Ty>, Ty)>,
    rec_sites: usize,
}

pub struct Gen<'a, 'b> {
    t: &'a mut Tape<'b>,
    pub p: Profile,
    ctxs: Vec<FnCtx>,
    forbidden: Vec<String>,
    fault_left: bool,
    pub fault_injected: Option<&'static str>,
    uniq: usize,
    nodes: usize,
    max_nodes: usize,
    /// functions whose bodies are being generated: only the innermost may be called (recursively, with a decreasing depth)
    in_progress: Vec<String>,
}

const NAMES: [&str; 8] = ["a", "b", "c", "x", "y", "z", "v", "w"];
const STR_PIECES: [&str; 12] = ["a", "b", "x", "hallo", " ", "é", "€", "𝄞", "{", "}", "1", "Z"];

impl<'a, 'b> Gen<'a, 'b> {
    pub fn new(t: &'a mut Tape<'b>, p: Profile) -> Gen<'a, 'b> {
        Gen {
            t,
            p,
            ctxs: vec![FnCtx { scopes: vec![vec![]], is_fn: false, ret: None, loops: 0, rec: None, rec_sites: 0 }],
            forbidden: vec![],
            fault_left: false,
            fault_injected: None,
            uniq: 0,
            nodes: 0,
            max_nodes: 400,
            in_progress: vec![],
        }
    }

    fn fresh(&mut self, prefix: &str) -> String {
        self.uniq += 1;
        format!("{prefix}{}", self.uniq)
    }
    fn cx(&mut self) -> &mut FnCtx {
        self.ctxs.last_mut().unwrap()
    }
    fn declare(&mut self, v: Var) {
        self.cx().scopes.last_mut().unwrap().push(v);
    }
    fn spent(&self) -> bool {
        self.nodes >= self.max_nodes || self.t.exhausted()
    }

    /// variables visible at this point (innermost first), honouring shadowing, U4 and U5
    fn visible(&self) -> Vec<Var> {
        let mut out: Vec<Var> = Vec::new();
        let mut seen: Vec<String> = Vec::new();
        let cur = self.ctxs.last().unwrap();
        for s in cur.scopes.iter().rev() {
            for v in s.iter().rev() {
                if !seen.contains(&v.name) {
                    seen.push(v.name.clone());
                    out.push(v.clone());
                }
            }
        }
        if self.ctxs.len() > 1 && !self.p.closed {
            // globals: the variables of every top-level scope that is open where the function literal stands (innermost first).
            // U5 cannot arise: a function value never flows to a scope outside the one it was created in (function variables are
            // not assigned, not stored in arrays and not returned to outer scopes), so it is only called while those scopes are open.
            let g = &self.ctxs[0];
            for s in g.scopes.iter().rev() {
                for v in s.iter().rev() {
                    if seen.contains(&v.name) {
                        continue;
                    }
                    seen.push(v.name.clone());
                    out.push(v.clone());
                }
            }
        }
        out.retain(|v| !self.forbidden.contains(&v.name) && !v.dead);
        // a function whose body is being generated is neither called nor passed around from inside that body
        // (other than through the controlled recursive call), otherwise recursion would not be bounded by construction
        out.retain(|v| !(matches!(v.ty, Ty::Fun(..)) && self.in_progress.contains(&v.name)));
        out
    }

    fn vars_of(&self, ty: &Ty) -> Vec<Var> {
        self.visible().into_iter().filter(|v| &v.ty == ty).collect()
    }

    // ------------------------------------------------------------------ literals
    fn int_lit(&mut self) -> i64 {
        match self.t.below(32) {
            0..=22 => self.t.range(0, 9),
            23..=27 => self.t.range(-20, 100),
            28 => self.t.range(-70_000, 70_000),
            29 => {
                let k = self.t.below(60) as u32;
                let base = 1i64 << k;
                base + self.t.range(-1, 1)
            }
            30 => -(1i64 << self.t.below(60) as u32),
            _ => *self.t.pick(&[crate::lattice::MAX_INT, crate::lattice::MIN_INT + 1, 65_535, 65_536, 255, 256]),
        }
    }
    fn float_lit(&mut self) -> f64 {
        self.t.range(-40, 40) as f64 / 8.0
    }
    fn str_lit(&mut self) -> String {
        let n = self.t.below(4);
        (0..n).map(|_| *self.t.pick(&STR_PIECES)).collect()
    }
    fn literal(&mut self, ty: &Ty) -> Expr {
        self.nodes += 1;
        match ty {
            Ty::Int => int_expr(self.int_lit()),
            Ty::Float => {
                let f = self.float_lit();
                if f < 0.0 || (f == 0.0 && f.is_sign_negative()) {
                    neg(float(-f))
                } else {
                    float(f)
                }
            }
            Ty::Bool => boolean(self.t.maybe(128)),
            Ty::Str => string(&self.str_lit()),
            Ty::Arr(e, n) => {
                let e = (**e).clone();
                array((0..*n).map(|_| self.atom(&e)).collect())
            }
            Ty::Fun(params, ret) => {
                let names: Vec<String> = (0..params.len()).map(|_| self.fresh("p")).collect();
                let body = self.fn_body(&names, params, ret, None);
                Expr::Function { name: String::new(), parameters: names, body }
            }
            Ty::Null => calln("print", vec![string("")]),
        }
    }
    /// a small expression of the type: a visible variable or a literal
    fn atom(&mut self, ty: &Ty) -> Expr {
        let vs = self.vars_of(ty);
        if !vs.is_empty() && self.t.maybe(170) {
            self.nodes += 1;
            return ident(&self.t.pick(&vs).name.clone());
        }
        self.literal(ty)
    }

    // ------------------------------------------------------------------ faults
    fn take_fault(&mut self, kind: &'static str) -> bool {
        let w = if kind == "undeclared-name" { 2 } else { 16 };
        if self.fault_left && self.t.maybe(w) {
            self.fault_left = false;
            self.fault_injected = Some(kind);
            true
        } else {
            false
        }
    }
    fn wrong_typed(&mut self, not: &Ty) -> Expr {
        let cands = [Ty::Int, Ty::Bool, Ty::Str];
        let c: Vec<&Ty> = cands.iter().filter(|t| *t != not).collect();
        let ty = (*self.t.pick(&c)).clone();
        self.literal(&ty)
    }

    // ------------------------------------------------------------------ expressions
    pub fn expr(&mut self, ty: &Ty, d: usize) -> Expr {
        self.nodes += 1;
        if d == 0 || self.spent() {
            return self.atom(ty);
        }
        if self.take_fault("undeclared-name") {
            return ident(&self.fresh("onbekend"));
        }
        match ty {
            Ty::Int => self.int_expr(d),
            Ty::Bool => self.bool_expr(d),
            Ty::Float => self.float_expr(d),
            Ty::Str => self.str_expr(d),
            Ty::Arr(..) | Ty::Fun(..) | Ty::Null => self.other_expr(ty, d),
        }
    }

    fn call_returning(&mut self, ty: &Ty, d: usize) -> Option<Expr> {
        if !self.p.funcs {
            return None;
        }
        let mut cands: Vec<(String, Vec<Ty>, bool)> = Vec::new();
        for v in self.visible() {
            if let Ty::Fun(ps, r) = &v.ty {
                if **r == *ty && !self.in_progress.contains(&v.name) {
                    cands.push((v.name.clone(), ps.clone(), false));
                }
            }
        }
        // recursion: only with a decreasing first argument, at most two sites per body
        let rec = self.ctxs.last().unwrap().rec.clone();
        if let Some((name, ps, r)) = rec {
            if r == *ty && self.ctxs.last().unwrap().rec_sites < 2 && !self.forbidden.contains(&name) && self.in_progress.last() == Some(&name) {
                cands.push((name, ps, true));
            }
        }
        if cands.is_empty() {
            return None;
        }
        let (name, ps, is_rec) = self.t.pick(&cands).clone();
        let mut args = Vec::new();
        for (k, p) in ps.iter().enumerate() {
            if is_rec && k == 0 {
                args.push(infix(ident("n"), Operator::Subtract, int(1)));
            } else if !is_rec && k == 0 && *p == Ty::Int {
                // first Int parameter may be a recursion depth: keep it small
                let m = self.p.rec_depth;
                args.push(int(self.t.range(0, m)));
            } else {
                let a = self.expr(p, d - 1);
                args.push(self.traced(a));
            }
        }
        if is_rec {
            self.cx().rec_sites += 1;
        }
        if self.take_fault("wrong-arity-builtin") {
            return Some(calln("lengte", vec![string("ab"), int(1)]));
        }
        Some(calln(&name, args))
    }

    /// a call of the given (visible, not in-progress) function variable
    fn call_of(&mut self, f: &Var, d: usize) -> Expr {
        let ps = match &f.ty {
            Ty::Fun(ps, _) => ps.clone(),
            _ => vec![],
        };
        let mut args = Vec::new();
        for (k, p) in ps.iter().enumerate() {
            if k == 0 && *p == Ty::Int {
                let m = self.p.rec_depth;
                args.push(int(self.t.range(0, m)));
            } else {
                let a = self.expr(p, d.saturating_sub(1));
                args.push(self.traced(a));
            }
        }
        calln(&f.name, args)
    }

    /// C12: wraps an argument into the tracing identity
    fn traced(&mut self, e: Expr) -> Expr {
        if self.p.trace_args && self.t.maybe(150) {
            self.uniq += 1;
            calln("spoor", vec![int(self.uniq as i64), e])
        } else {
            e
        }
    }

    fn index_expr(&mut self, elem: &Ty, d: usize) -> Option<Expr> {
        let mut cands = Vec::new();
        for v in self.visible() {
            if let Ty::Arr(e, n) = &v.ty {
                if **e == *elem && *n > 0 {
                    cands.push((v.name.clone(), *n));
                }
            }
        }
        if cands.is_empty() {
            return None;
        }
        let (name, n) = self.t.pick(&cands).clone();
        let idx = self.index_for(n, d);
        Some(index(ident(&name), idx))
    }

    /// an index expression valid for a sequence of length n (or a fault)
    fn index_for(&mut self, n: usize, d: usize) -> Expr {
        if self.take_fault("index-out-of-range") {
            return if self.t.maybe(128) { int(n as i64 + self.t.range(0, 2)) } else { neg(int(n as i64 + 1 + self.t.range(0, 2))) };
        }
        if self.take_fault("index-not-int") {
            return self.wrong_typed(&Ty::Int);
        }
        let k = self.t.range(-(n as i64), n as i64 - 1);
        if d > 1 && self.t.maybe(40) {
            // computed index that stays in range: k + 0 * e
            let e = self.atom(&Ty::Int);
            return infix(int_expr(k), Operator::Add, infix(int(0), Operator::Multiply, e));
        }
        int_expr(k)
    }

    fn if_value(&mut self, ty: &Ty, d: usize) -> Expr {
        let c = self.cond(d - 1);
        let t = self.value_block(ty, d - 1);
        let e = self.value_block(ty, d - 1);
        iff(c, t, Some(e))
    }

    /// block whose last statement is an expression of the type
    fn value_block(&mut self, ty: &Ty, d: usize) -> BlockStmt {
        self.cx().scopes.push(vec![]);
        let n = self.t.below(3);
        let mut b = self.stmts(n, d);
        if d >= 2 && self.t.maybe(24) {
            // the value comes out of a nested block statement in last position (block statements are transparent)
            let inner = self.value_block(ty, d - 1);
            b.push(Stmt::Block(inner));
        } else {
            let e = self.expr(ty, d);
            b.push(es(e));
        }
        self.cx().scopes.pop();
        b
    }

    fn cond(&mut self, d: usize) -> Expr {
        if self.take_fault("non-bool-condition") {
            return self.wrong_typed(&Ty::Bool);
        }
        self.expr(&Ty::Bool, d)
    }

    fn assignable(&self, ty: &Ty) -> Vec<Var> {
        self.vars_of(ty).into_iter().filter(|v| !v.readonly).collect()
    }

    fn int_expr(&mut self, d: usize) -> Expr {
        let ty = Ty::Int;
        match self.t.below(12) {
            0 | 1 => self.atom(&ty),
            2 | 3 | 4 => {
                let op = *self.t.pick(&[Operator::Add, Operator::Subtract, Operator::Multiply, Operator::Divide, Operator::Modulo]);
                // a variable of another type against a small literal: `x + 0`, `1 * x`, ... (exactly the shapes the compiler fuses)
                let others: Vec<Var> = self.visible().into_iter().filter(|v| matches!(v.ty, Ty::Float | Ty::Str | Ty::Bool | Ty::Arr(..))).collect();
                if !others.is_empty() && self.take_fault("ill-typed-variable") {
                    let v = ident(&self.t.pick(&others).name.clone());
                    let k = int(*self.t.pick(&[0i64, 1, 1, 2, 7]));
                    return if self.t.maybe(128) { infix(v, op, k) } else { infix(k, op, v) };
                }
                let l = if self.take_fault("ill-typed-operand") { self.wrong_typed(&ty) } else { self.expr(&ty, d - 1) };
                let r = if matches!(op, Operator::Divide | Operator::Modulo) {
                    if self.take_fault("zero-divisor") {
                        int(0)
                    } else {
                        // a divisor that cannot be zero
                        int(self.t.range(1, 9))
                    }
                } else if self.take_fault("ill-typed-operand") {
                    self.wrong_typed(&ty)
                } else {
                    self.expr(&ty, d - 1)
                };
                infix(l, op, r)
            }
            5 => self.call_returning(&ty, d).unwrap_or_else(|| self.atom(&ty)),
            6 => {
                // lengte of an array or a string
                let arrs: Vec<Var> = self.visible().into_iter().filter(|v| matches!(v.ty, Ty::Arr(..) | Ty::Str)).collect();
                if !arrs.is_empty() && self.p.arrays {
                    calln("lengte", vec![ident(&self.t.pick(&arrs).name.clone())])
                } else if self.p.strings {
                    let s = self.expr(&Ty::Str, d - 1);
                    calln("lengte", vec![s])
                } else {
                    self.atom(&ty)
                }
            }
            7 => match self.t.below(3) {
                0 => {
                    let b = self.expr(&Ty::Bool, d - 1);
                    calln("int", vec![b])
                }
                1 if self.p.strings => calln("int", vec![string(&format!("{}", self.t.range(-99, 999)))]),
                _ if self.p.floats => {
                    let f = self.expr(&Ty::Float, d - 1);
                    calln("int", vec![f])
                }
                _ => self.atom(&ty),
            },
            8 if self.p.arrays => self.index_expr(&ty, d).unwrap_or_else(|| self.atom(&ty)),
            9 => self.if_value(&ty, d),
            10 => {
                let vs = self.assignable(&ty);
                if vs.is_empty() {
                    self.atom(&ty)
                } else {
                    let v = self.t.pick(&vs).name.clone();
                    self.forbidden.push(v.clone()); // keep `x = x op …` out of nested use for readability only
                    let r = self.expr(&ty, d - 1);
                    self.forbidden.pop();
                    assign(ident(&v), r)
                }
            }
            _ => {
                let e = self.expr(&ty, d - 1);
                neg(e)
            }
        }
    }

    /// side-effect-free boolean that cannot fail (U2: right operands of && and ||)
    fn pure_bool(&mut self) -> Expr {
        match self.t.below(3) {
            0 => self.atom(&Ty::Bool),
            _ => {
                let op = *self.t.pick(&[Operator::Lt, Operator::Lte, Operator::Gt, Operator::Gte, Operator::Eq, Operator::Neq]);
                let l = self.atom(&Ty::Int);
                let r = self.atom(&Ty::Int);
                infix(l, op, r)
            }
        }
    }

    fn bool_expr(&mut self, d: usize) -> Expr {
        let ty = Ty::Bool;
        match self.t.below(10) {
            0 => self.atom(&ty),
            1 | 2 | 3 | 4 => {
                let op = *self.t.pick(&[Operator::Lt, Operator::Lte, Operator::Gt, Operator::Gte, Operator::Eq, Operator::Neq]);
                let mut kinds = vec![Ty::Int, Ty::Int];
                if self.p.floats {
                    kinds.push(Ty::Float);
                }
                if self.p.strings {
                    kinds.push(Ty::Str);
                }
                let k = self.t.pick(&kinds).clone();
                let l = self.expr(&k, d - 1);
                let r = if self.take_fault("ill-typed-operand") { self.wrong_typed(&k) } else { self.expr(&k, d - 1) };
                infix(l, op, r)
            }
            5 => {
                let op = *self.t.pick(&[Operator::And, Operator::Or]);
                let l = self.expr(&ty, d - 1);
                let r = self.pure_bool();
                infix(l, op, r)
            }
            6 => {
                let e = self.expr(&ty, d - 1);
                not(e)
            }
            7 => {
                let k = self.t.pick(&[Ty::Int, Ty::Str, Ty::Bool]).clone();
                let e = self.expr(&k, d - 1);
                calln("bool", vec![e])
            }
            8 => self.call_returning(&ty, d).unwrap_or_else(|| self.atom(&ty)),
            _ => {
                let op = *self.t.pick(&[Operator::Eq, Operator::Neq]);
                let l = self.expr(&ty, d - 1);
                let r = self.pure_bool();
                infix(l, op, r)
            }
        }
    }

    fn float_expr(&mut self, d: usize) -> Expr {
        let ty = Ty::Float;
        if !self.p.floats {
            return self.atom(&ty);
        }
        match self.t.below(7) {
            0 | 1 => self.atom(&ty),
            2 | 3 => {
                let op = *self.t.pick(&[Operator::Add, Operator::Subtract, Operator::Multiply, Operator::Divide]);
                let l = self.expr(&ty, d - 1);
                let r = self.expr(&ty, d - 1);
                infix(l, op, r)
            }
            4 => {
                let i = self.atom(&Ty::Int);
                calln("float", vec![i])
            }
            5 => self.call_returning(&ty, d).unwrap_or_else(|| self.atom(&ty)),
            _ => {
                let e = self.expr(&ty, d - 1);
                neg(e)
            }
        }
    }

    fn str_expr(&mut self, d: usize) -> Expr {
        let ty = Ty::Str;
        if !self.p.strings {
            return self.atom(&ty);
        }
        match self.t.below(8) {
            0 | 1 | 2 => self.atom(&ty),
            3 => {
                if self.t.maybe(90) {
                    // string(text) hands back the very same object, whether the text is a literal, a variable or a call
                    let s = self.expr(&Ty::Str, d - 1);
                    return calln("string", vec![s]);
                }
                let i = self.expr(&Ty::Int, d - 1);
                calln("string", vec![i])
            }
            4 => {
                let k = self.t.pick(&[Ty::Int, Ty::Bool, Ty::Str, Ty::Float]).clone();
                let e = self.expr(&k, d - 1);
                calln("type", vec![e])
            }
            5 => {
                // one character of a literal string
                let s = self.str_lit();
                let n = s.chars().count();
                if n == 0 {
                    return string(&s);
                }
                let idx = self.index_for(n, d);
                index(string(&s), idx)
            }
            6 => self.call_returning(&ty, d).unwrap_or_else(|| self.atom(&ty)),
            _ => self.if_value(&ty, d),
        }
    }

    fn other_expr(&mut self, ty: &Ty, d: usize) -> Expr {
        match self.t.below(4) {
            0 | 1 => self.atom(ty),
            2 => self.call_returning(ty, d).unwrap_or_else(|| self.atom(ty)),
            _ => match ty {
                Ty::Arr(e, n) => {
                    let e = (**e).clone();
                    array((0..*n).map(|_| self.expr(&e, d - 1)).collect())
                }
                _ => self.atom(ty),
            },
        }
    }

    // ------------------------------------------------------------------ types
    fn value_ty(&mut self) -> Ty {
        let mut c = vec![Ty::Int, Ty::Int, Ty::Int, Ty::Bool];
        if self.p.floats {
            c.push(Ty::Float);
        }
        if self.p.strings {
            c.push(Ty::Str);
        }
        if self.p.arrays {
            c.push(Ty::Arr(Box::new(Ty::Int), self.t.below(5)));
            if self.p.alloc_heavy {
                c.push(Ty::Arr(Box::new(Ty::Str), 1 + self.t.below(3)));
                c.push(Ty::Arr(Box::new(Ty::Float), 1 + self.t.below(3)));
                c.push(Ty::Arr(Box::new(Ty::Arr(Box::new(Ty::Int), 2)), 1 + self.t.below(2)));
            }
        }
        if self.p.alloc_heavy {
            c.push(Ty::Str);
            c.push(Ty::Float);
        }
        self.t.pick(&c).clone()
    }
    fn param_ty(&mut self) -> Ty {
        match self.t.below(8) {
            0..=4 => Ty::Int,
            5 if self.p.arrays => Ty::Arr(Box::new(Ty::Int), 1 + self.t.below(3)),
            6 if self.p.strings => Ty::Str,
            7 => Ty::Fun(vec![Ty::Int], Box::new(Ty::Int)),
            _ => Ty::Bool,
        }
    }

    // ------------------------------------------------------------------ functions
    fn fn_body(&mut self, names: &[String], params: &[Ty], ret: &Ty, rec: Option<(String, Vec<Ty>, Ty)>) -> BlockStmt {
        let d = self.p.max_depth.saturating_sub(self.ctxs.len()).max(1);
        let mut scope = Vec::new();
        for (n, t) in names.iter().zip(params) {
            scope.push(Var { name: n.clone(), ty: t.clone(), readonly: n == "n" && rec.is_some(), dead: false, mut_str: false });
        }
        // parameters live in the base scope of the context; the body block opens another one
        self.ctxs.push(FnCtx { scopes: vec![scope, vec![]], is_fn: true, ret: Some(ret.clone()), loops: 0, rec: rec.clone(), rec_sites: 0 });
        let mut body = Vec::new();
        if rec.is_some() {
            // base case first, so that recursion terminates
            let base = self.atom(ret);
            body.push(es(iff(infix(ident("n"), Operator::Lte, int(0)), vec![Stmt::Return(base)], None)));
        }
        let n = self.t.below(self.p.max_block_stmts);
        body.extend(self.stmts(n, d));
        if *ret == Ty::Null && rec.is_none() && self.t.maybe(70) {
            // an empty body: the parameters are all there is
            self.ctxs.pop();
            return vec![];
        }
        if *ret == Ty::Null {
            // a body that ends in a declaration has no value (valueless return)
            let ty = self.value_ty();
            let e = self.expr(&ty, d);
            let nm = self.fresh("slot");
            body.push(Stmt::Let(nm, e));
            self.ctxs.pop();
            return body;
        }
        let e = self.expr(ret, d);
        if self.t.maybe(60) {
            body.push(Stmt::Return(e));
            if self.t.maybe(48) {
                // statements that are never reached: they are still compiled (names in them are still resolved)
                let k = 1 + self.t.below(2);
                let dead = self.stmts(k, d);
                body.extend(dead);
            }
        } else {
            body.push(es(e));
        }
        self.ctxs.pop();
        body
    }

    fn fn_decl(&mut self) -> Stmt {
        let np = self.t.below(4);
        let recursive = !self.p.closed && self.ctxs.len() == 1 && self.cx().scopes.len() == 1 && self.t.maybe(110);
        let mut params: Vec<Ty> = Vec::new();
        let mut names: Vec<String> = Vec::new();
        if recursive {
            params.push(Ty::Int);
            names.push("n".into());
        }
        for _ in 0..np {
            params.push(self.param_ty());
            let nm = if self.t.maybe(128) { self.t.pick(&NAMES).to_string() } else { self.fresh("p") };
            if names.contains(&nm) {
                names.push(self.fresh("p"));
            } else {
                names.push(nm);
            }
        }
        let ret = match self.t.below(7) {
            6 if self.t.maybe(if self.p.tail_decls { 255 } else { 90 }) => Ty::Null,
            0..=2 => Ty::Int,
            3 => Ty::Bool,
            4 if self.p.strings => Ty::Str,
            5 if self.p.arrays => Ty::Arr(Box::new(Ty::Int), 1 + self.t.below(3)),
            _ => Ty::Int,
        };
        let fname = self.fresh("f");
        let fty = Ty::Fun(params.clone(), Box::new(ret.clone()));
        let named = self.t.maybe(150);
        // the name is declared before the body is compiled
        self.declare(Var { name: fname.clone(), ty: fty, readonly: true, dead: false, mut_str: false });
        let rec = if recursive { Some((fname.clone(), params.clone(), ret.clone())) } else { None };
        // a non-recursive function must not call itself: hide its name inside the body
        if !recursive {
            self.forbidden.push(fname.clone());
        }
        let saved = self.forbidden.clone();
        self.in_progress.push(fname.clone());
        let body = {
            let b = self.fn_body(&names, &params, &ret, rec);
            self.forbidden = saved;
            b
        };
        self.in_progress.pop();
        if !recursive {
            self.forbidden.pop();
        }
        if named {
            es(Expr::Function { name: fname, parameters: names, body })
        } else {
            // `stel f = functie(…) {…}`: the declaration exists before the initialiser
            Stmt::Let(fname, Expr::Function { name: String::new(), parameters: names, body })
        }
    }

    // ------------------------------------------------------------------ statements
    pub fn stmts(&mut self, n: usize, d: usize) -> BlockStmt {
        let mut out = Vec::new();
        for _ in 0..n {
            if self.spent() {
                break;
            }
            out.extend(self.stmt(d));
        }
        out
    }

    fn print_stmt(&mut self, d: usize) -> Stmt {
        let n = self.t.below(3);
        let mut fmt = String::new();
        let mut args = Vec::new();
        fmt.push_str(self.t.pick_str(&["", "w=", "uit ", "#"]));
        for k in 0..n {
            if k > 0 {
                fmt.push(' ');
            }
            fmt.push_str("{}");
            let mut kinds = vec![Ty::Int, Ty::Int, Ty::Bool];
            if self.p.strings {
                kinds.push(Ty::Str);
            }
            if self.p.floats {
                kinds.push(Ty::Float);
            }
            // now and then an array: a visible array variable, or a literal that mentions the same array twice (aliasing)
            let arrs: Vec<Var> = self
                .visible()
                .into_iter()
                .filter(|v| matches!(&v.ty, Ty::Arr(e, _) if matches!(**e, Ty::Int | Ty::Str | Ty::Float | Ty::Bool | Ty::Arr(..))))
                .collect();
            if self.p.arrays && !arrs.is_empty() && self.t.maybe(60) {
                let a = self.t.pick(&arrs).name.clone();
                if self.t.maybe(128) {
                    args.push(ident(&a));
                } else {
                    let b = self.t.pick(&arrs).name.clone();
                    args.push(array(vec![ident(&a), int(self.t.range(0, 9)), ident(&b), ident(&a)]));
                }
                continue;
            }
            let ty = self.t.pick(&kinds).clone();
            args.push(self.expr(&ty, d.saturating_sub(1)));
        }
        let mut all = vec![string(&fmt)];
        all.extend(args);
        es(calln("print", all))
    }

    fn stmt(&mut self, d: usize) -> Vec<Stmt> {
        self.nodes += 1;
        let d1 = d.saturating_sub(1);
        let in_fn = self.ctxs.last().unwrap().is_fn;
        let in_loop = self.ctxs.last().unwrap().loops > 0;
        let mut w: Vec<(&str, u32)> = vec![("let", 40), ("assign", 30), ("exprstmt", 8)];
        if self.p.prints {
            w.push(("print", 25));
        }
        if d > 0 {
            w.push(("if", 25));
            w.push(("block", self.p.blocks));
            if self.p.loops {
                w.push(("while", 18));
            }
            if self.p.funcs && self.ctxs.len() < 3 {
                w.push(("fn", 16));
            }
        }
        if self.p.arrays {
            w.push(("arrset", 14));
        }
        if self.p.funcs && self.visible().iter().any(|v| matches!(v.ty, Ty::Fun(..)) && !self.in_progress.contains(&v.name)) {
            w.push(("callstmt", 30));
        }
        if self.p.strings && self.p.str_mut {
            w.push(("strset", 6));
        }
        if in_fn && d > 0 {
            w.push(("return", 6));
        }
        if in_loop {
            w.push(("stop", 5));
            w.push(("volgende", 5));
        }
        let total: u32 = w.iter().map(|x| x.1).sum();
        let mut k = self.t.below(total as usize) as u32;
        let mut kind = "let";
        for (n, wt) in &w {
            if k < *wt {
                kind = n;
                break;
            }
            k -= wt;
        }
        match kind {
            "let" => {
                let ty = self.value_ty();
                let name = if self.t.maybe(200) { self.t.pick(&NAMES).to_string() } else { self.fresh("g") };
                // U4: the new name is in scope (uninitialised) while its initialiser runs
                self.forbidden.push(name.clone());
                let e = if self.p.loops && d > 0 && self.t.maybe(6) {
                    // a loop in value position: its value is bound to a variable that is never read (U8)
                    let (pre, lp) = self.while_parts(d1);
                    self.forbidden.pop();
                    let mut out = pre;
                    self.declare(Var { name: name.clone(), ty: Ty::Null, readonly: true, dead: true, mut_str: false });
                    out.push(Stmt::Let(name, lp));
                    return out;
                } else {
                    self.expr(&ty, d)
                };
                self.forbidden.pop();
                // a string variable with a known minimal length, so that element assignments can use valid indices
                // (U10 no longer restricts where such literals may occur: every evaluation of a literal yields its own string)
                let mut mut_str = false;
                let e = if ty == Ty::Str && self.p.str_mut && self.t.maybe(90) {
                    mut_str = true;
                    let u = self.fresh("uniek");
                    let extra = self.str_lit();
                    let lit = string(&format!("{u}_{extra}"));
                    if self.t.maybe(70) {
                        // the literal goes through a builtin that returns its argument
                        calln("string", vec![lit])
                    } else {
                        lit
                    }
                } else {
                    e
                };
                self.declare(Var { name: name.clone(), ty, readonly: false, dead: false, mut_str });
                vec![Stmt::Let(name, e)]
            }
            "assign" => {
                let vs: Vec<Var> = self.visible().into_iter().filter(|v| !v.readonly && !matches!(v.ty, Ty::Fun(..) | Ty::Null) && !v.mut_str).collect();
                if vs.is_empty() {
                    return vec![self.print_stmt(d1)];
                }
                let v = self.t.pick(&vs).clone();
                if self.t.maybe(110) && matches!(v.ty, Ty::Int | Ty::Float) {
                    // op-assignment shape: v = v op e (the printer may write it as `v op= e`)
                    let op = *self.t.pick(&[Operator::Add, Operator::Subtract, Operator::Multiply]);
                    let r = self.expr(&v.ty, d1);
                    vec![es(assign(ident(&v.name), infix(ident(&v.name), op, r)))]
                } else {
                    let r = self.expr(&v.ty, d);
                    vec![es(assign(ident(&v.name), r))]
                }
            }
            "exprstmt" => {
                let ty = self.value_ty();
                let e = self.expr(&ty, d);
                // a function literal may not start an expression statement that continues; keep it simple
                vec![es(e)]
            }
            "print" => vec![self.print_stmt(d1)],
            "callstmt" => {
                // call a visible function; sometimes keep the result in a variable
                let fs: Vec<Var> = self.visible().into_iter().filter(|v| matches!(v.ty, Ty::Fun(..)) && !self.in_progress.contains(&v.name)).collect();
                let f = self.t.pick(&fs).clone();
                if let Ty::Fun(_, ret) = &f.ty {
                    let ret = (**ret).clone();
                    // restrict the candidates to this function by asking for its return type; fall back to a direct call
                    if self.t.maybe(128) {
                        let name = if self.t.maybe(200) { self.t.pick(&NAMES).to_string() } else { self.fresh("g") };
                        // U4: the new name must not occur in its own initialiser; and a function may not be re-declared under its own name
                        if name == f.name {
                            return vec![es(self.call_of(&f, d))];
                        }
                        self.forbidden.push(name.clone());
                        let e = self.call_of(&f, d);
                        self.forbidden.pop();
                        self.declare(Var { name: name.clone(), ty: ret, readonly: false, dead: false, mut_str: false });
                        vec![Stmt::Let(name, e)]
                    } else {
                        vec![es(self.call_of(&f, d))]
                    }
                } else {
                    vec![]
                }
            }
            "if" => {
                let c = self.cond(d1);
                let t = self.block(d1);
                let alt = match self.t.below(4) {
                    0 => None,
                    1 => Some(self.block(d1)),
                    _ => {
                        // else-if chain
                        let c2 = self.cond(d1);
                        let t2 = self.block(d1);
                        let a2 = if self.t.maybe(128) { Some(self.block(d1)) } else { None };
                        Some(vec![es(iff(c2, t2, a2))])
                    }
                };
                vec![es(iff(c, t, alt))]
            }
            "block" => vec![Stmt::Block(self.block(d1))],
            "while" => {
                let (mut pre, lp) = self.while_parts(d1);
                pre.push(es(lp));
                pre
            }
            "fn" => vec![self.fn_decl()],
            "arrset" => {
                let vs: Vec<Var> = self.visible().into_iter().filter(|v| matches!(&v.ty, Ty::Arr(_, n) if *n > 0)).collect();
                if vs.is_empty() {
                    return vec![self.print_stmt(d1)];
                }
                let v = self.t.pick(&vs).clone();
                if let Ty::Arr(e, n) = &v.ty {
                    let idx = self.index_for(*n, d);
                    let val = self.expr(e, d1);
                    vec![es(assign(index(ident(&v.name), idx), val))]
                } else {
                    vec![]
                }
            }
            "strset" => {
                let vs: Vec<Var> = self.visible().into_iter().filter(|v| v.mut_str).collect();
                if vs.is_empty() || self.t.maybe(60) {
                    // any string variable, guarded by its length
                    let any: Vec<Var> = self.visible().into_iter().filter(|v| v.ty == Ty::Str && !v.readonly).collect();
                    if any.is_empty() {
                        return vec![self.print_stmt(d1)];
                    }
                    let v = self.t.pick(&any).clone();
                    let ch = self.t.pick(&["q", "é", "€", "𝄞", " ", "Z"]).to_string();
                    let idx = if self.t.maybe(128) { int(0) } else { neg(int(1)) };
                    let set = es(assign(index(ident(&v.name), idx), string(&ch)));
                    return vec![es(iff(infix(calln("lengte", vec![ident(&v.name)]), Operator::Gt, int(0)), vec![set], None))];
                }
                let v = self.t.pick(&vs).clone();
                // the text starts with "uniek<k>", so indices 0..5 exist
                let idx = int_expr(self.t.range(-5, 4));
                let ch = self.t.pick(&["q", "é", "€", "𝄞", " ", "Z"]).to_string();
                vec![es(assign(index(ident(&v.name), idx), string(&ch)))]
            }
            "return" => {
                let ret = self.ctxs.last().unwrap().ret.clone().unwrap_or(Ty::Int);
                let c = self.cond(d1);
                let e = self.expr(&ret, d1);
                vec![es(iff(c, vec![Stmt::Return(e)], None))]
            }
            "stop" | "volgende" => {
                let c = self.cond(d1);
                let s = if kind == "stop" { Stmt::Break } else { Stmt::Continue };
                let mut b = Vec::new();
                if self.p.prints && self.t.maybe(100) {
                    b.push(self.print_stmt(0));
                }
                b.push(s);
                if self.t.maybe(40) {
                    // never reached, still compiled
                    self.cx().scopes.push(vec![]);
                    let dead = self.stmts(1, d1);
                    self.cx().scopes.pop();
                    b.extend(dead);
                }
                vec![es(iff(c, b, None))]
            }
            _ => vec![],
        }
    }

    /// `stel iK = 0` + `zolang iK < K { iK = iK + 1; … }`
    fn while_parts(&mut self, d: usize) -> (Vec<Stmt>, Expr) {
        let counter = self.fresh("i");
        let k = *self.t.pick(&[0i64, 1, 2, 3, 3, 4, 17]);
        self.declare(Var { name: counter.clone(), ty: Ty::Int, readonly: true, dead: false, mut_str: false });
        let pre = vec![let_(&counter, int(0))];
        self.cx().loops += 1;
        self.cx().scopes.push(vec![]);
        let mut body = vec![es(assign(ident(&counter), infix(ident(&counter), Operator::Add, int(1))))];
        let n = self.t.below(self.p.max_block_stmts);
        body.extend(self.stmts(n, d));
        self.cx().scopes.pop();
        self.cx().loops -= 1;
        (pre, whil(infix(ident(&counter), Operator::Lt, int(k)), body))
    }

    fn block(&mut self, d: usize) -> BlockStmt {
        self.cx().scopes.push(vec![]);
        let n = self.t.below(self.p.max_block_stmts + 1);
        let b = self.stmts(n, d);
        self.cx().scopes.pop();
        b
    }

    /// A whole program; it always ends with an expression statement (U1)
    pub fn program(&mut self) -> BlockStmt {
        self.fault_left = self.t.maybe(self.p.fault);
        let n = 1 + self.t.below(self.p.max_top_stmts);
        let d = self.p.max_depth;
        let mut prog = Vec::new();
        if self.p.trace_args {
            prog.push(es(func("spoor", &["id", "v"], vec![es(calln("print", vec![string("s{}"), ident("id")])), es(ident("v"))])));
        }
        prog.extend(self.stmts(n, d));
        // final expression: one value, or an array collecting several variables (result graph with sharing)
        let vis: Vec<Var> = self.visible().into_iter().filter(|v| !matches!(v.ty, Ty::Null)).collect();
        let fin = if vis.len() >= 2 && self.t.maybe(150) {
            let k = 1 + self.t.below(4.min(vis.len()));
            let mut items = Vec::new();
            for _ in 0..k {
                items.push(ident(&self.t.pick(&vis).name.clone()));
            }
            array(items)
        } else {
            let ty = self.value_ty();
            self.expr(&ty, 2)
        };
        prog.push(es(fin));
        if self.p.tail_decls && self.t.maybe(90) {
            // declarations (with calls) after the last expression statement
            let fs: Vec<Var> = self.visible().into_iter().filter(|v| matches!(v.ty, Ty::Fun(..))).collect();
            let n = 1 + self.t.below(2);
            for _ in 0..n {
                let nm = self.fresh("staart");
                let e = if !fs.is_empty() && self.t.maybe(220) {
                    let f = self.t.pick(&fs).clone();
                    self.call_of(&f, 2)
                } else {
                    let ty = self.value_ty();
                    self.expr(&ty, 2)
                };
                prog.push(Stmt::Let(nm, e));
            }
        }
        prog
    }
}

pub fn gen_program(tape: &[u8], p: &Profile) -> (BlockStmt, Option<&'static str>) {
    let (prog, fault, _) = gen_program_used(tape, p);
    (prog, fault)
}

/// also returns how many tape bytes the generator consumed (the rest may drive transformations / layouts)
pub fn gen_program_used(tape: &[u8], p: &Profile) -> (BlockStmt, Option<&'static str>, usize) {
    let mut t = Tape::new(tape);
    let mut g = Gen::new(&mut t, p.clone());
    let prog = g.program();
    let fault = g.fault_injected;
    let used = t.used();
    (prog, fault, used)
}
