pub mod c15;
