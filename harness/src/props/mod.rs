pub mod c01;
pub mod c06;
pub mod c15;
