pub mod c06;
pub mod c15;
