pub mod c01;
pub mod c06;
pub mod c07;
pub mod c08;
pub mod c09;
pub mod c10;
pub mod c11;
pub mod c15;
