//! C12 — calls bind arguments, isolate activations and resume the caller intact.
use crate::diff::*;
use crate::difftest::*;
use crate::engine::*;
use crate::gen::Profile;
use crate::refint::RefObs;
use crate::report::*;
use serde_json::{json, Value};

pub fn nontrivial(r: &RefObs) -> bool {
    r.stats.same_fn_live_twice || r.stats.call_with_pending
}

/// directed programs whose expected result is known arithmetically: (source, expected int)
fn deep_recursion(k: i64) -> (String, i64) {
    (format!("functie diep(n) {{ als n <= 0 {{ antwoord 0 }} 1 + diep(n - 1) }} diep({k})"), k)
}

fn deep_recursion_locals(k: i64) -> (String, i64) {
    (
        format!(
            "functie diep(n, acc) {{ stel a = n; stel b = acc + 1; als a <= 0 {{ antwoord acc }} stel r = diep(a - 1, b); r }} diep({k}, 0)"
        ),
        k,
    )
}

/// recursion shapes for the stack-limit sweep: (source for a depth, approximate stack slots per level)
pub fn limit_shapes() -> Vec<(fn(i64) -> (String, i64), usize)> {
    fn s2(k: i64) -> (String, i64) {
        (format!("functie d(n) {{ als n <= 0 {{ antwoord 0 }} 1 + d(n - 1) }} d({k})"), k)
    }
    fn s3(k: i64) -> (String, i64) {
        (format!("functie d(n) {{ als n <= 0 {{ antwoord 0 }} 1 + (2 + d(n - 1)) }} 0 + d({k})"), 3 * k)
    }
    fn s4(k: i64) -> (String, i64) {
        (format!("functie d(n, m) {{ als n <= 0 {{ antwoord m }} 1 + (0 + d(n - 1, m)) }} d({k}, 5)"), k + 5)
    }
    fn s5(k: i64) -> (String, i64) {
        (format!("functie d(n) {{ stel a = n; stel b = 1; als a <= 0 {{ antwoord 0 }} b + (0 + d(a - 1)) }} d({k})"), k)
    }
    fn s6(k: i64) -> (String, i64) {
        // (no heap values here: with a managed object alive every return runs a collection over the whole deep stack)
        (format!("functie d(n, x, y) {{ als n <= 0 {{ antwoord x + y }} 1 + (2 + (3 + d(n - 1, x, y))) - 6 }} d({k}, 3, 4)"), 7)
    }
    fn s7(k: i64) -> (String, i64) {
        (format!("functie d(n) {{ stel a = 0; stel b = 0; stel c = 0; als n <= 0 {{ antwoord 0 }} 1 + (0 + (0 + d(n - 1))) }} d({k})"), k)
    }
    vec![(s2 as fn(i64) -> (String, i64), 2), (s3, 4), (s4, 5), (s5, 5), (s6, 6), (s7, 7)]
}

fn directed_texts() -> Vec<String> {
    let mut v = Vec::new();
    for k in [0, 1, 7, 200, 201] {
        v.push(format!(
            "stel even = 0; stel oneven = 0; even = functie(n) {{ als n == 0 {{ antwoord ja }} oneven(n - 1) }}; oneven = functie(n) {{ als n == 0 {{ antwoord nee }} even(n - 1) }}; [even({k}), oneven({k})]"
        ));
    }
    v.push("functie maak(k) { functie(x) { x + 1 } } stel h = maak(2); stel lijst = [h, maak(3)]; stel g = lijst[1]; [h(3), g(10), h == lijst[0]]".into());
    v.push("functie pas(f, x) { f(x) } functie dubbel(y) { y * 2 }; [pas(dubbel, 4), pas(functie(z) { z - 1 }, 4), pas(dubbel, pas(dubbel, 1))]".into());
    v.push("functie f(a, b, c) { stel l1 = a; stel l2 = b; [l1, l2, c] }; stel eerste = f(1, 2, 3); [eerste, [f(4, 5, 6), 7], f(eerste[0], 8, 9), f(lengte(f(0, 0, 0)), f(1, 1, 1), 2)]".into());
    v.push("functie fib(n) { als n < 2 { antwoord n } fib(n - 1) + fib(n - 2) }; [fib(0), fib(1), fib(10), 100 - fib(12), fib(7) * fib(8)]".into());
    v.push("functie niets(a, b) { } functie doe(f, x) { f(x, x); 3 }; [doe(niets, 1), niets(1, 2), functie(a, b, c) { }(1, 2, 3), lengte([functie(q) { }(9)])]".into());
    v.push("functie tel(n) { stel lokaal = n * 10; als n > 0 { tel(n - 1) }; lokaal }; [tel(3), tel(0)]".into());
    // 255 arguments
    let params: Vec<String> = (0..255).map(|i| format!("p{i}")).collect();
    let args: Vec<String> = (0..255).map(|i| format!("{i}")).collect();
    v.push(format!("functie veel({}) {{ p0 + p1 + p254 + p100 }} veel({})", params.join(", "), args.join(", ")));
    v
}

fn check_directed_value(r: &mut Report, src: &str, expect: i64, budget: u64) {
    r.eval();
    r.count("directed-deep");
    r.nontrivial(src);
    let o = run_eval(src, &RunCfg { budget, audit_heap: true });
    let ok = match &o.outcome {
        Outcome::Value(Val::Int(i)) => *i == expect,
        // U17: beyond the machine's limits an error is acceptable, a wrong value or a crash is not
        Outcome::Error(_) | Outcome::Budget => true,
        _ => false,
    } && o.events.is_empty();
    if !ok {
        r.violation(Violation {
            property: "C12".into(),
            driver: "directed-deep".into(),
            class: if o.outcome.is_crash() { format!("crash:{}", crash_class(&o.outcome)) } else { "deep:wrong-value".into() },
            case: json!({"src": src, "expect_int": expect}),
            expected: format!("value {expect} or an error"),
            observed: o.render(),
        });
    }
}

pub fn replay(case: &Value) -> Option<Violation> {
    if let Some(e) = case.get("expect_int").and_then(|x| x.as_i64()) {
        let mut r = Report::new("C12", "exploration", "");
        check_directed_value(&mut r, case.get("src")?.as_str()?, e, 30_000_000);
        return r.violations.pop();
    }
    replay_src("C12", case)
}

pub fn run_check(ctx: &Ctx) -> Report {
    let mut rep = Report::new(
        "C12",
        "exploration",
        "programs of the `calls` profile (up to ~6 functions, 0-4 parameters, locals, direct recursion, functions stored / passed / returned, calls from every expression context, \
         arguments wrapped in a tracing identity so that evaluation order is visible) against the reference interpreter; directed programs: mutual recursion through pre-declared variables, \
         functions in arrays, 255 arguments, calls made from up to 280 000 bytes into straight-line code (the call returns to where it was made), recursion to depth 10 ... 70 000 with and without locals, and recursions to the 16-bit stack limit that end in a call of a leaf function with 0-2 parameters and 0-2 locals at every stack index around 65 536 (expected value known arithmetically; beyond the machine's limits an error is accepted, U17). \
         non-trivial = two activations of the same function live at once, or a call made with >=1 pending operand; distinct by source text",
    );
    rep.assumptions.push("U3: calls pass exactly as many arguments as the function has parameters; U15: callees are identifiers or function literals".into());
    let known = load_known_findings();
    let cases = ctx.pick(200_000u32, 6_000_000u32) / ctx.shards as u32;
    let seed = ctx.seed;
    let mut rep = par_shards(ctx.shards, rep, move |shard, r| {
        let cfg = DiffCfg { prop: "C12", driver: "random-calls", profile: Profile::calls(), cases, max_len: 700, seed: seed.wrapping_mul(67_867_967) + shard as u64, layout: false };
        run_diff_tapes(r, &cfg, &nontrivial, &known);
    });
    for src in directed_texts() {
        rep.eval();
        rep.count("directed");
        match diff_text(&src) {
            Ok(out) => match out.verdict {
                Verdict::Agree => rep.nontrivial(&src),
                Verdict::Discard(w) => rep.count(&format!("discard:{w}")),
                Verdict::Violation { class, expected, observed } => rep.violation(Violation {
                    property: "C12".into(),
                    driver: "directed".into(),
                    class,
                    case: json!({"src": src}),
                    expected,
                    observed,
                }),
            },
            Err(e) => {
                eprintln!("directed C12 program does not parse: {e}\n{src}");
                std::process::exit(2);
            }
        }
    }
    // the 16-bit stack limit: recursion shapes with different numbers of slots per level, at every depth around the point
    // where the stack crosses 65 536 slots; the recursion ends by itself, so the value is known exactly (or the limit error is reported)
    for (src_of, _) in limit_shapes() {
        // locate the deepest recursion that still succeeds (every probe is itself judged), then sweep around it
        let (mut lo, mut hi) = (1i64, 70_000i64);
        while lo < hi {
            let mid = (lo + hi + 1) / 2;
            let (s, e) = src_of(mid);
            check_directed_value(&mut rep, &s, e, 30_000_000);
            let ok = matches!(run_eval(&s, &RunCfg { budget: 30_000_000, audit_heap: false }).outcome, Outcome::Value(_));
            if ok {
                lo = mid;
            } else {
                hi = mid - 1;
            }
        }
        rep.count_n("limit-sweep:deepest-successful-recursion", lo as u64);
        for depth in (lo - 8).max(1)..=(lo + 8) {
            let (s, e) = src_of(depth);
            check_directed_value(&mut rep, &s, e, 30_000_000);
        }
    }
    // the same limit reached by a call of *another* function than the recursing one: a leaf with p parameters and l locals
    // (none at all included) is called from the bottom of a recursion with two slots per level, under j further pending operands,
    // so that the leaf's frame starts at every slot around 65 536, of either parity (added after the eighth wave's C12-11, DESIGN.md 7.2)
    for (p, l) in [(0usize, 0usize), (1, 0), (0, 1), (2, 2)] {
        for j in 0..2usize {
            let src_of = |k: i64| -> (String, i64) {
                let params: Vec<String> = (0..p).map(|i| format!("p{i}")).collect();
                let locals: String = (0..l).map(|i| format!("stel a{i} = 1; ")).collect();
                let mut sum: Vec<String> = vec!["7".into()];
                sum.extend(params.iter().cloned());
                sum.extend((0..l).map(|i| format!("a{i}")));
                let args = vec!["1"; p].join(", ");
                let call = format!("{}f({k}){}", "0 + (".repeat(j), ")".repeat(j));
                (
                    format!(
                        "functie z({}) {{ {}{} }} functie f(n) {{ als n == 0 {{ antwoord z({}) }} stel r = f(n - 1); r + n }} {}",
                        params.join(", "),
                        locals,
                        sum.join(" + "),
                        args,
                        call
                    ),
                    7 + (p + l) as i64 + k * (k + 1) / 2,
                )
            };
            let (mut lo, mut hi) = (30_000i64, 34_000i64);
            while lo < hi {
                let mid = (lo + hi + 1) / 2;
                let (s, e) = src_of(mid);
                check_directed_value(&mut rep, &s, e, 30_000_000);
                let ok = matches!(run_eval(&s, &RunCfg { budget: 30_000_000, audit_heap: false }).outcome, Outcome::Value(_));
                if ok {
                    lo = mid;
                } else {
                    hi = mid - 1;
                }
            }
            rep.count_n("limit-sweep-leaf:deepest-successful-recursion", lo as u64);
            for depth in (lo - 4).max(1)..=(lo + 4) {
                let (s, e) = src_of(depth);
                check_directed_value(&mut rep, &s, e, 30_000_000);
                rep.count("limit-sweep-leaf:case");
            }
        }
    }
    // argument counts around the 8-bit operand of the call instruction: the exact value, or a (syntax) error - never another value
    for n in [1usize, 2, 127, 128, 254, 255, 256, 257, 258, 300, 511, 512, 513] {
        let params: Vec<String> = (0..n).map(|i| format!("p{i}")).collect();
        let args: Vec<String> = (0..n).map(|i| format!("{}", i + 1)).collect();
        let src = format!("functie veel({}) {{ p0 * 1000 + p{} }} [7, veel({})][1] + 0", params.join(", "), n - 1, args.join(", "));
        check_directed_value(&mut rep, &src, 1000 + n as i64, 3_000_000);
        // a callee that ignores its parameters, called while operands are pending: slots that a miscompiled call leaves behind show up in the array
        let src = format!("functie vast({}) {{ 5 }} stel r = [7, vast({}), 9]; r[0] * 100 + r[1] * 10 + lengte(r)", params.join(", "), args.join(", "));
        check_directed_value(&mut rep, &src, 753, 3_000_000);
        // the same number of arguments to a builtin that takes any number
        let src = format!("print({}); 5", vec!["\"\""; n].join(", "));
        check_directed_value(&mut rep, &src, 5, 3_000_000);
    }
    for k in [10, 200, 1000, 5000, 16_000, 21_000, 22_000, 33_000, 70_000] {
        let (s, e) = deep_recursion(k);
        check_directed_value(&mut rep, &s, e, 30_000_000);
        let (s, e) = deep_recursion_locals(k);
        check_directed_value(&mut rep, &s, e, 30_000_000);
    }
    // calls made from far into the code (straight-line code has no 16-bit jump operands, so it can be longer than 64 KiB):
    // the call must come back to where it was made, whatever the position. An error is accepted where a limit applies (U17).
    for filler in ["ja; ", "1; ", "\"t\"; ", "[]; "] {
        for n in [10usize, 2_000, 16_000, 21_840, 21_850, 32_750, 32_768, 32_780, 33_000, 40_000, 70_000] {
            let body = filler.repeat(n);
            // before and after the filler, nested, with operands pending, and from a function that was itself called from there
            let src = format!("functie f(x) {{ x * 2 + 1 }} functie g(x) {{ f(x) + f(x + 1) }} stel a = f(1); {body}stel b = f(20) + f(1); stel c = [7, f(f(2)), 9]; stel d = g(3); a * 1000000 + b * 10000 + c[1] * 100 + d");
            check_directed_value(&mut rep, &src, 3 * 1_000_000 + 44 * 10_000 + 11 * 100 + 16, 3_000_000);
        }
    }
    rep.sample(json!({"directed-far-call": "functie f(x) { x * 2 + 1 } ... ; ja; ja; ... (33 000 times) ...; f(20) + f(1)"}));
    rep.sample(json!({"directed": deep_recursion(70_000).0}));
    rep
}
