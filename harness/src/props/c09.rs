//! C09 — names resolve lexically; undeclared names are rejected before anything runs.
use crate::ast::*;
use crate::difftest::*;
use crate::engine::*;
use crate::gen::*;
use crate::printer::print_canonical;
use crate::refint::{RefObs, Resolver};
use crate::report::*;
use crate::tape::{run_tapes, Tape};
use crate::transform::*;
use serde_json::{json, Value};

const BUDGET: u64 = 300_000;

fn run(src: &str) -> Obs {
    run_eval(src, &RunCfg { budget: BUDGET, audit_heap: true })
}

pub fn nontrivial(r: &RefObs) -> bool {
    r.stats.shadow_outer_after_inner
}

type Fail = (String, Value, String, String);

fn same(kind: &str, src_p: &str, p: &Obs, src_t: &str) -> Result<(), Fail> {
    let t = run(src_t);
    if t.outcome == Outcome::Budget {
        return Ok(());
    }
    if !p.same_as(&t) || !t.events.is_empty() {
        return Err((format!("{kind}:observation-changed"), json!({"kind": kind, "src_p": src_p, "src_t": src_t}), p.render(), t.render()));
    }
    Ok(())
}

fn poisoned(src_t: &str) -> Result<(), Fail> {
    let t = run(src_t);
    let ok = t.outcome == Outcome::Error(ErrKind::Reference) && t.output.is_empty() && t.events.is_empty();
    if ok {
        Ok(())
    } else {
        Err(("poison:not-rejected-first".into(), json!({"kind": "poison", "src_t": src_t}), "error ReferenceError | out=\"\"".into(), t.render()))
    }
}

/// applies the three transformations chosen by the tape; returns the number of variants checked
fn meta_check(prog: &BlockStmt, t: &mut Tape, stats: &mut [u64; 4]) -> Result<(), Fail> {
    let mut rs = Resolver::new();
    if rs.block(prog, true).is_err() {
        return Ok(());
    }
    let src_p = print_canonical(prog);
    let p = run(&src_p);
    if p.outcome == Outcome::Budget || p.outcome.is_crash() || !p.events.is_empty() {
        // crashes of the untransformed program are C01/C02's findings
        return Ok(());
    }
    let events = rs.events.clone();
    // sanity: the mapper must see the same names in the same order as the resolver
    let mut desync = false;
    map_names(prog, &mut |k, is_decl, n| {
        if events.get(k).map(|e| e.name != n || e.is_decl != is_decl).unwrap_or(true) {
            desync = true;
        }
        n.to_string()
    });
    if desync {
        eprintln!("harness bug: name traversal out of sync for {src_p}");
        std::process::exit(2);
    }
    // (b) consistent renaming of one declaration and exactly its uses
    let decls: Vec<usize> = events.iter().filter(|e| e.is_decl).map(|e| e.decl).collect();
    if !decls.is_empty() {
        let d = *t.pick(&decls);
        let fresh = format!("hernoemd_{d}");
        let renamed = map_names(prog, &mut |k, _, n| if events[k].decl == d { fresh.clone() } else { n.to_string() });
        stats[0] += 1;
        same("rename", &src_p, &p, &print_canonical(&renamed))?;
    }
    // (c) an unused shadowing declaration in an inner block
    let nblocks = count_inner_blocks(prog);
    if nblocks > 0 && !decls.is_empty() {
        let target = t.below(nblocks);
        let names: Vec<String> = events.iter().filter(|e| e.is_decl).map(|e| e.name.clone()).collect();
        let v = t.pick(&names).clone();
        let pos_choice = t.byte();
        let lit = match t.below(3) {
            0 => int(0),
            1 => string("schaduw"),
            _ => array(vec![int(1), int(2)]),
        };
        let mut applied = false;
        let padded = rewrite_block(prog, target, &mut |b| {
            if b.is_empty() {
                return b.clone();
            }
            let pos = (pos_choice as usize * b.len()) >> 8; // 0..len-1: never after the last statement
            if mentions(&b[pos..], &v) {
                return b.clone();
            }
            applied = true;
            let mut nb = b.clone();
            nb.insert(pos, Stmt::Let(v.clone(), lit.clone()));
            nb
        });
        if applied {
            stats[1] += 1;
            same("pad", &src_p, &p, &print_canonical(&padded))?;
        }
    }
    // (d) one use replaced by an undeclared name
    let uses: Vec<usize> = events.iter().enumerate().filter(|(_, e)| !e.is_decl).map(|(i, _)| i).collect();
    if !uses.is_empty() {
        let u = *t.pick(&uses);
        let poisoned_prog = map_names(prog, &mut |k, _, n| if k == u { "ongedefinieerd_9".to_string() } else { n.to_string() });
        stats[2] += 1;
        if !p.output.is_empty() {
            stats[3] += 1;
        }
        poisoned(&print_canonical(&poisoned_prog))?;
    }
    Ok(())
}

pub fn replay(case: &Value) -> Option<Violation> {
    let mk = |f: Fail| Violation { property: "C09".into(), driver: "replay".into(), class: f.0, case: case.clone(), expected: f.2, observed: f.3 };
    match case.get("kind").and_then(|k| k.as_str()) {
        Some("many-names") => {
            let fam = case.get("family")?.as_str()?.to_string();
            let mut r = Report::new("C09", "exploration", "");
            for (name, src) in many_names_programs() {
                if name == fam {
                    let _ = src;
                    many_names_family_one(&mut r, &name);
                }
            }
            r.violations.pop()
        }
        Some("poison") => poisoned(case.get("src_t")?.as_str()?).err().map(mk),
        Some(kind) => {
            let src_p = case.get("src_p")?.as_str()?;
            let p = run(src_p);
            same(kind, src_p, &p, case.get("src_t")?.as_str()?).err().map(mk)
        }
        None => replay_src("C09", case),
    }
}

/// Many names at once: every name keeps denoting its own variable however many there are. Up to the machine's limit (65 535
/// variables per table, U17) the values must come out; beyond it the program is refused - it never runs with names mixed up.
fn many_names_programs() -> Vec<(String, String)> {
    let mut v = Vec::new();
    for n in [300usize, 1_000, 65_000, 65_534, 65_535, 65_536, 65_537, 70_000, 131_073] {
        let mid: String = (1..n - 1).map(|i| format!("stel v{i} = {};\n", i % 1000)).collect();
        v.push((format!("globals:{n}"), format!("stel eerste = 11;\n{mid}stel laatste = 22;\n[eerste, v1, v{}, laatste]", n - 2)));
        v.push((format!("locals:{n}"), format!("functie f(eerste) {{\n{mid}stel laatste = 22;\n[eerste, v1, v{}, laatste] }}\nf(11)", n - 2)));
        if n <= 1_000 {
            // the same names again in an inner block (all shadowed at once), read from inside and from outside
            let inner: String = (1..n - 1).map(|i| format!("stel v{i} = {};\n", i % 1000 + 1)).collect();
            v.push((
                format!("shadowed:{n}"),
                format!(
                    "stel eerste = 11;\n{mid}stel laatste = 22;\nstel r = 0;\n{{ stel eerste = 33;\n{inner}stel laatste = 44;\nr = [eerste, v1, v{0}, laatste] }}\nals r[0] == 33 {{ als r[1] == 2 {{ als r[2] == {1} {{ als r[3] == 44 {{ [eerste, v1, v{0}, laatste] }} }} }} }}",
                    n - 2,
                    (n - 2) % 1000 + 1
                ),
            ));
        }
    }
    v
}

fn many_names_family_one(rep: &mut Report, only: &str) {
    many_names_family_filtered(rep, Some(only))
}

fn many_names_family(rep: &mut Report) {
    many_names_family_filtered(rep, None)
}

fn many_names_family_filtered(rep: &mut Report, only: Option<&str>) {
    for (name, src) in many_names_programs() {
        if only.map(|o| o != name).unwrap_or(false) {
            continue;
        }
        rep.eval();
        rep.count("many-names");
        rep.nontrivial(&name);
        let n: usize = name.split(':').nth(1).and_then(|x| x.parse().ok()).unwrap_or(0);
        let o = run_eval(&src, &RunCfg { budget: 20_000_000, audit_heap: true });
        let want = |v: &Val| matches!(v, Val::Arr(_, x) if x.len() == 4 && x[0] == Val::Int(11) && x[1] == Val::Int(1) && x[2] == Val::Int(((n - 2) % 1000) as i64) && x[3] == Val::Int(22));
        let ok = match &o.outcome {
            Outcome::Value(v) => want(v),
            // a refusal is fine where a table would have more entries than the machine can address
            Outcome::Error(_) => n >= 65_000,
            Outcome::Budget => true,
            _ => false,
        } && o.events.is_empty();
        if !ok {
            rep.violation(Violation {
                property: "C09".into(),
                driver: "many-names".into(),
                class: "many-names:wrong-variable".into(),
                case: json!({"kind": "many-names", "family": name}),
                expected: format!("[11, 1, {}, 22]{}", (n - 2) % 1000, if n >= 65_000 { " or a refusal (too many variables)" } else { "" }),
                observed: o.render().chars().take(400).collect(),
            });
        }
    }
    rep.sample(json!({"many-names": "stel eerste = 11; stel v1 = 1; ... stel v65535 = 535; stel laatste = 22; [eerste, v1, v65535, laatste]"}));
}

pub fn run_check(ctx: &Ctx) -> Report {
    let mut rep = Report::new(
        "C09",
        "exploration",
        "programs of the `scopes` profile (blocks to depth 5, few reused identifiers, shadowing, same-scope re-declaration, functions nested in blocks and functions, recursion): \
         (a) against the reference interpreter; (b) one declaration and exactly the uses bound to it renamed to a fresh name; (c) an unused shadowing declaration inserted into an inner block; \
         (b),(c) must leave the observation unchanged; (d) one use replaced by an undeclared name must give a ReferenceError and no output at all. \
         (e) 300 ... 131 073 variables in one table (globals, locals of one function, all shadowed at once): every name denotes its own variable, or the program is refused beyond the machine's limit. \
         non-trivial = a use resolves to an outer declaration although a later declaration of the same name exists (inner scope closed, or a caller's local); distinct by source text",
    );
    rep.assumptions.push("U4/U5: generated programs never read a name inside its own initialiser nor a block-scoped global from a function called after the block ended".into());
    let known = load_known_findings();
    let cases = ctx.pick(150_000u32, 4_000_000u32) / ctx.shards as u32;
    let seed = ctx.seed;
    crate::engine::note_current("done", "");
    many_names_family(&mut rep);
    par_shards(ctx.shards, rep, move |shard, r| {
        let cfg = DiffCfg { prop: "C09", driver: "scopes-vs-reference", profile: Profile::scopes(), cases, max_len: 600, seed: seed.wrapping_mul(104_729) + shard as u64, layout: false };
        run_diff_tapes(r, &cfg, &nontrivial, &known);
        let profile = Profile::scopes();
        let mut stats = [0u64; 4];
        let fail = run_tapes(seed.wrapping_mul(15_485_863) + shard as u64, cases, 700, |tape, shrinking| {
            let (prog, _, used) = gen_program_used(tape, &profile);
            let mut t = Tape::new(&tape[used.min(tape.len())..]);
            let mut scratch = [0u64; 4];
            let res = meta_check(&prog, &mut t, if shrinking { &mut scratch } else { &mut stats });
            if !shrinking {
                r.eval();
            }
            res.map_err(|f| f.0)
        });
        r.count_n("variants:rename", stats[0]);
        r.count_n("variants:pad", stats[1]);
        r.count_n("variants:poison", stats[2]);
        r.count_n("variants:poison-after-output", stats[3]);
        if let Some((tape, _)) = fail {
            let (prog, _, used) = gen_program_used(&tape, &profile);
            let lt: Vec<u8> = tape[used.min(tape.len())..].to_vec();
            let mut scratch = [0u64; 4];
            if let Err(f) = meta_check(&prog, &mut Tape::new(&lt), &mut scratch) {
                let cls = f.0.clone();
                let small = crate::minimize::minimize(
                    &prog,
                    &mut |p| matches!(meta_check(p, &mut Tape::new(&lt), &mut [0u64; 4]), Err(g) if g.0 == cls),
                    1500,
                );
                if let Err(f) = meta_check(&small, &mut Tape::new(&lt), &mut scratch) {
                    r.violation(Violation { property: "C09".into(), driver: "metamorphic".into(), class: f.0, case: f.1, expected: f.2, observed: f.3 });
                }
            }
        }
    })
}
