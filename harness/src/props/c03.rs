//! C03 — a value that is still reachable is never reclaimed.
//! (The collector-history model is shared with C04.)
use crate::diff::*;
use crate::difftest::*;
use crate::engine::*;
use crate::gen::Profile;
use crate::refint::RefObs;
use crate::report::*;
use crate::tape::{run_tapes, Tape};
use nederlang::object::{FromString, FromVec, Object, Type};
use nederlang::verif::{self, GC};
use serde_json::{json, Value};
use std::collections::BTreeSet;

// ---------------------------------------------------------------------------------------
// Domain B: collector histories

#[derive(Clone, Debug, PartialEq)]
pub enum Op {
    AllocFloat,
    AllocStr,
    /// array holding the objects with these indices (indices of dead objects are skipped when executed)
    AllocArr(Vec<usize>),
    /// arr.push(obj)
    Link(usize, usize),
    /// arr.clear()
    Unlink(usize),
    /// collect with these roots (object indices, duplicates allowed)
    Collect(Vec<usize>),
    /// hand the object over to the caller (untrace)
    HandOver(usize),
}

#[derive(Clone, Debug)]
struct MObj {
    obj: Object,
    is_array: bool,
    items: Vec<usize>,
    managed: bool,
    freed: bool,
}

pub struct HistoryOutcome {
    pub collections: usize,
    pub nontrivial_collections: usize,
    pub freed: usize,
    /// classes reached: nested / aliased / cyclic / via-unmanaged
    pub classes: BTreeSet<&'static str>,
    pub left_managed_at_destroy: usize,
}

fn reach(objs: &[MObj], roots: &[usize]) -> BTreeSet<usize> {
    let mut seen = BTreeSet::new();
    let mut work: Vec<usize> = roots.to_vec();
    while let Some(i) = work.pop() {
        if i >= objs.len() || objs[i].freed || !seen.insert(i) {
            continue;
        }
        if objs[i].is_array {
            work.extend(objs[i].items.iter().copied());
        }
    }
    seen
}

/// Executes a history against the real collector and the model; Err(class, detail) on a disagreement
pub fn run_history(ops: &[Op], check_c04: bool) -> Result<HistoryOutcome, (String, String)> {
    crate::engine::note_current("history", &ops_json(ops).to_string());
    verif::heap_enable(true);
    verif::heap_reset();
    verif::take_events();
    verif::set_gc_observer(None);
    let res = std::panic::catch_unwind(std::panic::AssertUnwindSafe(|| run_history_inner(ops, check_c04)));
    let events: Vec<String> = verif::take_events().iter().map(|e| scrub(e)).collect();
    // release whatever is still live so that histories do not pile up memory
    verif::heap_reset();
    crate::engine::install_gc_observer();
    match res {
        Ok(r) => {
            if let (Ok(_), Some(e)) = (&r, events.first()) {
                return Err((format!("event:{}", e.split(" of ").next().unwrap_or(e)), e.clone()));
            }
            r
        }
        Err(p) => {
            let o = classify_unwind(p);
            Err((format!("crash:{}", crash_class(&o)), o.render()))
        }
    }
}

fn run_history_inner(ops: &[Op], check_c04: bool) -> Result<HistoryOutcome, (String, String)> {
    let mut gc = GC::new();
    let mut objs: Vec<MObj> = Vec::new();
    let mut out = HistoryOutcome { collections: 0, nontrivial_collections: 0, freed: 0, classes: BTreeSet::new(), left_managed_at_destroy: 0 };
    let live_check = |objs: &[MObj], step: usize| -> Result<(), (String, String)> {
        for (i, o) in objs.iter().enumerate() {
            let live = verif::heap_is_live(o.obj) == Some(true);
            if live == o.freed {
                return Err(if o.freed {
                    ("garbage-not-freed-or-resurrected".to_string(), format!("step {step}: object {i} should have been freed but is live"))
                } else {
                    ("reachable-object-freed".to_string(), format!("step {step}: object {i} is reachable/handed over/unmanaged but was freed"))
                });
            }
        }
        Ok(())
    };
    for (step, op) in ops.iter().enumerate() {
        match op {
            Op::AllocFloat => {
                let o = Object::float(step as f64 + 0.5, &mut gc);
                objs.push(MObj { obj: o, is_array: false, items: vec![], managed: true, freed: false });
            }
            Op::AllocStr => {
                let o = Object::string(format!("s{step}"), &mut gc);
                objs.push(MObj { obj: o, is_array: false, items: vec![], managed: true, freed: false });
            }
            Op::AllocArr(items) => {
                let items: Vec<usize> = items.iter().copied().filter(|i| *i < objs.len() && !objs[*i].freed).collect();
                let v: Vec<Object> = items.iter().map(|i| objs[*i].obj).collect();
                let o = Object::array(v, &mut gc);
                if items.iter().any(|i| objs[*i].is_array) {
                    out.classes.insert("nested");
                }
                let mut d = items.clone();
                d.sort();
                d.dedup();
                if d.len() < items.len() {
                    out.classes.insert("aliased");
                }
                objs.push(MObj { obj: o, is_array: true, items, managed: true, freed: false });
            }
            Op::Link(a, b) => {
                if *a < objs.len() && *b < objs.len() && objs[*a].is_array && !objs[*a].freed && !objs[*b].freed {
                    let mut ao = objs[*a].obj;
                    ao.as_vec_mut().push(objs[*b].obj);
                    objs[*a].items.push(*b);
                    if reach(&objs, &[*b]).contains(a) {
                        out.classes.insert("cyclic");
                    }
                    if !objs[*a].managed && objs[*b].managed {
                        out.classes.insert("managed-object-inside-unmanaged-array");
                    }
                }
            }
            Op::Unlink(a) => {
                if *a < objs.len() && objs[*a].is_array && !objs[*a].freed {
                    let mut ao = objs[*a].obj;
                    ao.as_vec_mut().clear();
                    objs[*a].items.clear();
                }
            }
            Op::HandOver(a) => {
                if *a < objs.len() && !objs[*a].freed {
                    gc.untrace(objs[*a].obj);
                    // model of the documented behaviour: the object and, if it was managed and is an array, everything it refers to
                    fn hand(objs: &mut Vec<MObj>, i: usize) {
                        if objs[i].freed || !objs[i].managed {
                            return;
                        }
                        objs[i].managed = false;
                        if objs[i].is_array {
                            for j in objs[i].items.clone() {
                                hand(objs, j);
                            }
                        }
                    }
                    hand(&mut objs, *a);
                }
            }
            Op::Collect(roots) => {
                let mut roots: Vec<usize> = roots.iter().copied().filter(|i| *i < objs.len() && !objs[*i].freed).collect();
                // whoever took an object over still holds it: handed-over objects are roots of every later cycle
                // (an unreachable unmanaged array could otherwise be left with dangling elements and be used as a root later,
                // which no execution of the VM can do)
                roots.extend((0..objs.len()).filter(|i| !objs[*i].managed && !objs[*i].freed));
                let r = reach(&objs, &roots);
                let managed_live: Vec<usize> = (0..objs.len()).filter(|i| objs[*i].managed && !objs[*i].freed).collect();
                let garbage: Vec<usize> = managed_live.iter().copied().filter(|i| !r.contains(i)).collect();
                out.collections += 1;
                if !garbage.is_empty() && managed_live.len() > garbage.len() {
                    out.nontrivial_collections += 1;
                }
                if roots.iter().any(|i| !objs[*i].managed && objs[*i].is_array) {
                    out.classes.insert("unmanaged-array-as-root");
                }
                let root_objs: Vec<Object> = roots.iter().map(|i| objs[*i].obj).collect();
                // two root slices, the second repeating the first (duplicates across root sets)
                let dup: Vec<Object> = root_objs.iter().rev().copied().collect();
                gc.run(&[root_objs.as_slice(), dup.as_slice(), &[Object::null(), Object::int(7)]]);
                for g in &garbage {
                    objs[*g].freed = true;
                    objs[*g].managed = false;
                }
                out.freed += garbage.len();
                if check_c04 {
                    // C04: garbage is reclaimed by the cycle; C03: nothing else is
                    live_check(&objs, step)?;
                } else {
                    // C03 only: nothing reachable / unmanaged may have been freed (garbage may linger)
                    for (i, o) in objs.iter().enumerate() {
                        if !o.freed && verif::heap_is_live(o.obj) != Some(true) {
                            return Err(("reachable-object-freed".into(), format!("step {step}: object {i} is reachable/handed over/unmanaged but was freed")));
                        }
                    }
                    // keep the model in step with what really happened
                    for i in 0..objs.len() {
                        if objs[i].freed && verif::heap_is_live(objs[i].obj) == Some(true) {
                            objs[i].freed = false;
                            objs[i].managed = true;
                        }
                    }
                }
                // survivors must be unchanged
                for (i, o) in objs.iter().enumerate() {
                    if !o.freed && o.is_array {
                        let got: Vec<usize> = o.obj.as_vec().iter().map(|x| obj_word(*x)).collect();
                        let want: Vec<usize> = o.items.iter().map(|j| obj_word(objs[*j].obj)).collect();
                        if got != want {
                            return Err(("survivor-changed".into(), format!("step {step}: array {i} changed during the cycle")));
                        }
                    }
                }
            }
        }
    }
    // end of the run: the collector is destroyed
    let managed_at_end: Vec<usize> = (0..objs.len()).filter(|i| objs[*i].managed && !objs[*i].freed).collect();
    drop(gc);
    let mut left = 0;
    for i in &managed_at_end {
        if verif::heap_is_live(objs[*i].obj) == Some(true) {
            left += 1;
        } else {
            objs[*i].freed = true;
        }
    }
    out.left_managed_at_destroy = left;
    if check_c04 && left > 0 {
        return Err(("leak:managed-at-destroy".into(), format!("{left} object(s) were still managed when the collector was destroyed and were not freed")));
    }
    // unmanaged (handed over) objects must have survived the destruction
    for (i, o) in objs.iter().enumerate() {
        if !o.freed && !o.managed && verif::heap_is_live(o.obj) != Some(true) {
            return Err(("handed-over-object-freed".into(), format!("object {i} was handed over but freed when the collector was destroyed")));
        }
    }
    // the caller (here: the harness) releases what it owns, each object once
    for o in objs.iter() {
        if !o.freed && verif::heap_is_live(o.obj) == Some(true) {
            if o.obj.tag() == Type::Array {
                let mut a = o.obj;
                a.as_vec_mut().clear();
            }
            o.obj.free();
        }
    }
    Ok(out)
}

pub fn gen_history(t: &mut Tape, max_ops: usize, universe: usize) -> Vec<Op> {
    let n = 1 + t.below(max_ops);
    let mut ops = Vec::new();
    let mut count = 0usize;
    for _ in 0..n {
        let pick = |t: &mut Tape, count: usize| if count == 0 { 0 } else { t.below(count) };
        let op = match t.below(12) {
            0 | 1 if count < universe => {
                count += 1;
                if t.maybe(128) {
                    Op::AllocFloat
                } else {
                    Op::AllocStr
                }
            }
            2 | 3 if count < universe => {
                let k = t.below(4);
                let items = (0..k).map(|_| pick(t, count)).collect();
                count += 1;
                Op::AllocArr(items)
            }
            4 | 5 => Op::Link(pick(t, count), pick(t, count)),
            6 => Op::Unlink(pick(t, count)),
            7 => Op::HandOver(pick(t, count)),
            _ => {
                let k = t.below(4);
                Op::Collect((0..k).map(|_| pick(t, count)).collect())
            }
        };
        ops.push(op);
    }
    ops
}

pub fn ops_json(ops: &[Op]) -> Value {
    json!(ops.iter().map(|o| format!("{o:?}")).collect::<Vec<_>>())
}

pub fn ops_from_json(v: &Value) -> Option<Vec<Op>> {
    let mut out = Vec::new();
    for s in v.as_array()? {
        let s = s.as_str()?;
        let nums = |s: &str| -> Vec<usize> { s.split(|c: char| !c.is_ascii_digit()).filter(|x| !x.is_empty()).filter_map(|x| x.parse().ok()).collect() };
        let op = if s == "AllocFloat" {
            Op::AllocFloat
        } else if s == "AllocStr" {
            Op::AllocStr
        } else if s.starts_with("AllocArr") {
            Op::AllocArr(nums(s))
        } else if s.starts_with("Link") {
            let n = nums(s);
            Op::Link(*n.first()?, *n.get(1)?)
        } else if s.starts_with("Unlink") {
            Op::Unlink(*nums(s).first()?)
        } else if s.starts_with("Collect") {
            Op::Collect(nums(s))
        } else if s.starts_with("HandOver") {
            Op::HandOver(*nums(s).first()?)
        } else {
            return None;
        };
        out.push(op);
    }
    Some(out)
}

/// all histories of exactly `len` operations over a universe of 3 objects (complete)
pub fn enumerate_histories(len: usize, f: &mut dyn FnMut(&[Op])) {
    fn alphabet(count: usize) -> Vec<Op> {
        let mut a = Vec::new();
        if count < 3 {
            a.push(Op::AllocStr);
            a.push(Op::AllocArr(vec![]));
            if count > 0 {
                a.push(Op::AllocArr(vec![count - 1]));
                a.push(Op::AllocArr(vec![0, 0]));
            }
        }
        for x in 0..count {
            for y in 0..count {
                a.push(Op::Link(x, y));
            }
            a.push(Op::HandOver(x));
            a.push(Op::Collect(vec![x]));
        }
        a.push(Op::Collect(vec![]));
        if count >= 2 {
            a.push(Op::Collect(vec![0, 1]));
        }
        a
    }
    fn rec(prefix: &mut Vec<Op>, count: usize, left: usize, f: &mut dyn FnMut(&[Op])) {
        if left == 0 {
            f(prefix);
            return;
        }
        for op in alphabet(count) {
            let c2 = if matches!(op, Op::AllocStr | Op::AllocFloat | Op::AllocArr(_)) { count + 1 } else { count };
            prefix.push(op);
            rec(prefix, c2, left - 1, f);
            prefix.pop();
        }
    }
    rec(&mut Vec::new(), 0, len, f);
}

/// greedy removal of operations while the failure persists
pub fn minimize_history(ops: &[Op], fails: &mut dyn FnMut(&[Op]) -> bool) -> Vec<Op> {
    let mut cur = ops.to_vec();
    loop {
        let mut progressed = false;
        for i in 0..cur.len() {
            let mut c = cur.clone();
            let removed = c.remove(i);
            // removing an allocation renumbers the later objects: only try it for non-allocations, or at the end
            if matches!(removed, Op::AllocFloat | Op::AllocStr | Op::AllocArr(_)) && i + 1 != cur.len() {
                continue;
            }
            if fails(&c) {
                cur = c;
                progressed = true;
                break;
            }
        }
        if !progressed {
            return cur;
        }
    }
}

pub fn history_driver(r: &mut Report, prop: &'static str, check_c04: bool, seed: u64, cases: u32, shard: usize, shards: usize, enum_len: usize) {
    // complete enumeration of short histories
    let mut idx = 0usize;
    let mut first: Option<(Vec<Op>, (String, String))> = None;
    for len in 1..=enum_len {
        enumerate_histories(len, &mut |ops| {
            idx += 1;
            if idx % shards != shard {
                return;
            }
            r.eval();
            r.count("histories-enumerated");
            match run_history(ops, check_c04) {
                Ok(o) => {
                    if o.nontrivial_collections > 0 {
                        r.nontrivial(&format!("{ops:?}"));
                    }
                    if check_c04 && o.left_managed_at_destroy > 0 {
                        r.count("histories-with-objects-left-managed-at-destroy");
                    }
                }
                Err(e) => {
                    if first.is_none() {
                        first = Some((ops.to_vec(), e));
                    }
                }
            }
        });
    }
    if let Some((ops, (class, detail))) = first {
        r.violation(Violation { property: prop.into(), driver: "histories-enumerated".into(), class, case: json!({"history": ops_json(&ops), "c04": check_c04}), expected: "the collector agrees with the reachability model".into(), observed: detail });
    }
    // random longer histories
    let fail = run_tapes(seed, cases, 200, |tape, shrinking| {
        let mut t = Tape::new(tape);
        let ops = gen_history(&mut t, 40, 8);
        let res = run_history(&ops, check_c04);
        if !shrinking {
            r.eval();
            r.count("histories-random");
            if let Ok(o) = &res {
                for c in &o.classes {
                    r.count(&format!("class:{c}"));
                }
                if o.nontrivial_collections > 0 {
                    r.nontrivial(&format!("{ops:?}"));
                    if r.nontrivial.len() % 4000 == 1 {
                        r.sample(json!({"history": ops_json(&ops)}));
                    }
                }
                if check_c04 && o.left_managed_at_destroy > 0 {
                    r.count("histories-with-objects-left-managed-at-destroy");
                }
            }
        }
        res.map(|_| ()).map_err(|e| e.0)
    });
    if let Some((tape, _)) = fail {
        let mut t = Tape::new(&tape);
        let ops = gen_history(&mut t, 40, 8);
        if let Err((class, _)) = run_history(&ops, check_c04) {
            let small = minimize_history(&ops, &mut |o| matches!(run_history(o, check_c04), Err((c, _)) if c == class));
            if let Err((class, detail)) = run_history(&small, check_c04) {
                r.violation(Violation { property: prop.into(), driver: "histories-random".into(), class, case: json!({"history": ops_json(&small), "c04": check_c04}), expected: "the collector agrees with the reachability model".into(), observed: detail });
            }
        }
    }
}

// ---------------------------------------------------------------------------------------

pub fn nontrivial(_r: &RefObs) -> bool {
    true
}

pub fn replay(case: &Value) -> Option<Violation> {
    if let Some(h) = case.get("history") {
        let ops = ops_from_json(h)?;
        let c04 = case.get("c04").and_then(|x| x.as_bool()).unwrap_or(false);
        return run_history(&ops, c04).err().map(|(class, detail)| Violation {
            property: "C03".into(),
            driver: "replay".into(),
            class,
            case: case.clone(),
            expected: "the collector agrees with the reachability model".into(),
            observed: detail,
        });
    }
    if case.get("session").is_some() {
        return crate::props::c17::replay(case).map(|mut v| {
            v.property = "C03".into();
            v
        });
    }
    if case.get("pending_under_recursion").is_some() {
        let src = case.get("src")?.as_str()?;
        if case.get("pending_under_recursion").and_then(|x| x.as_str()) == Some("counter") {
            return pending_counter_case(src, case.get("depth")?.as_i64()?).err();
        }
        return pending_case(src, case.get("depth")?.as_i64()?).err();
    }
    if case.get("safety_only").is_some() {
        let src = case.get("src")?.as_str()?;
        let o = run_eval(src, &RunCfg { budget: VM_BUDGET, audit_heap: true });
        if o.outcome.is_crash() || !o.events.is_empty() || o.heap.dead_in_result > 0 {
            return Some(Violation { property: "C03".into(), driver: "replay".into(), class: "unsafe-in-unspecified-program".into(), case: case.clone(), expected: "no freed object is observed".into(), observed: o.render() });
        }
        return None;
    }
    replay_src("C03", case)
}

/// (D) heap values that are only reachable from operands that are PENDING at the bottom of the stack (an array literal under
/// construction at top level, the locals and pending operands of callers) while a recursion runs right up to, and past, the
/// machine's stack limit: whatever the recursion ends in (a value or the limit's error, U17), the pending values must be
/// intact when the callers go on. Frames with 32 slots, so the limit is reached at a depth of about 2 000 and a collection
/// per return stays cheap.
fn pending_program(depth: i64, wide_frames: bool) -> String {
    // frames of 32 slots reach the limit at a depth of about 2 000; frames of 2 slots (one parameter, one pending operand) at
    // 32 768, and only they can fill the stack to the very last slot
    let locals: String = if wide_frames { (0..30).map(|i| format!("stel l{i} = n; ")).collect() } else { String::new() };
    format!(
        "functie d(n) {{ {locals}als n <= 0 {{ antwoord 0 }} 1 + d(n - 1) }} functie buiten(k) {{ stel t = string(k); stel f = float(k) + 0.5; stel r = [t, f, [k], d(k)]; [t, f, r] }} stel w = [\"tekst\", 2.5, [1], buiten({depth})]; w"
    )
}

/// the same with frames that hold nothing but two pending operands and a depth that does not depend on any slot of the
/// stack (a global counter): the recursion can END beyond the point at which a 16-bit frame base would wrap
fn pending_program_counter(depth: i64) -> String {
    // (only list construction consumes the pending operands: whatever is on the stack, no operation can fail on its type)
    format!("stel diepte = 0; functie f() {{ diepte = diepte + 1; als diepte > {depth} {{ [] }} anders {{ [\"links\", 2.5, f()] }} }} stel w = [\"tekst\", 2.5, [1], f()]; [w, diepte]")
}

fn pending_counter_case(src: &str, depth: i64) -> Result<(), Violation> {
    let o = run_eval(src, &RunCfg { budget: 60_000_000, audit_heap: true });
    let bad = |class: &str, o: &Obs| Violation {
        property: "C03".into(),
        driver: "pending-under-recursion".into(),
        class: class.into(),
        case: json!({"pending_under_recursion": "counter", "src": src, "depth": depth}),
        expected: format!("[[tekst, 2.5, [1], <{depth} nested [links, 2.5, ..] lists>], {}] or the stack limit's error; no freed object is observed", depth + 1),
        observed: o.render().chars().take(600).collect(),
    };
    if o.outcome.is_crash() || !o.events.is_empty() || o.heap.dead_in_result > 0 {
        return Err(bad("unsafe-while-operands-are-pending", &o));
    }
    match &o.outcome {
        Outcome::Error(_) | Outcome::Budget if depth >= 30_000 => Ok(()),
        Outcome::Error(_) | Outcome::Budget => Err(bad("error-far-below-the-limit", &o)),
        Outcome::Value(Val::Arr(_, top)) => {
            let ok = top.len() == 2
                && top[1] == Val::Int(depth + 1)
                && matches!(&top[0], Val::Arr(_, w) if w.len() == 4
                    && matches!(&w[0], Val::Str(s) if s == "tekst")
                    && matches!(&w[1], Val::Float(b) if *b == crate::engine::fbits(2.5))
                    && matches!(&w[2], Val::Arr(_, one) if one.len() == 1 && one[0] == Val::Int(1))
                    && {
                        // depth nested [links, 2.5, …] around an empty list
                        let mut cur = &w[3];
                        let mut levels = 0i64;
                        loop {
                            match cur {
                                Val::Arr(_, x) if x.is_empty() => break levels == depth,
                                Val::Arr(_, x) if x.len() == 3 && matches!(&x[0], Val::Str(s) if s == "links") && matches!(&x[1], Val::Float(b) if *b == crate::engine::fbits(2.5)) => {
                                    levels += 1;
                                    cur = &x[2];
                                }
                                _ => break false,
                            }
                        }
                    });
            if ok {
                Ok(())
            } else {
                Err(bad("pending-values-changed", &o))
            }
        }
        _ => Err(bad("pending-values-changed", &o)),
    }
}

fn pending_case(src: &str, depth: i64) -> Result<(), Violation> {
    let wide_frames = src.contains("stel l0 = n");
    let o = run_eval(src, &RunCfg { budget: 60_000_000, audit_heap: true });
    let bad = |class: &str, o: &Obs| Violation {
        property: "C03".into(),
        driver: "pending-under-recursion".into(),
        class: class.into(),
        case: json!({"pending_under_recursion": true, "src": src, "depth": depth}),
        expected: format!("[tekst, 2.5, [1], [\"{depth}\", {}.5, [\"{depth}\", {}.5, [{depth}], {depth}]]] or the stack limit's error; no freed object is observed", depth, depth),
        observed: o.render().chars().take(600).collect(),
    };
    if o.outcome.is_crash() || !o.events.is_empty() || o.heap.dead_in_result > 0 {
        return Err(bad("unsafe-while-operands-are-pending", &o));
    }
    match &o.outcome {
        // (far below the limit the recursion has to succeed: an error there would make the whole family vacuous)
        Outcome::Error(_) | Outcome::Budget if depth >= if wide_frames { 1900 } else { 32_000 } => Ok(()),
        Outcome::Error(_) | Outcome::Budget => Err(bad("error-far-below-the-limit", &o)),
        Outcome::Value(v) => {
            if rendering_matches(v, depth) {
                Ok(())
            } else {
                Err(bad("pending-values-changed", &o))
            }
        }
        _ => Err(bad("unsafe-while-operands-are-pending", &o)),
    }
}

/// structural comparison of the expected result [\"tekst\", 2.5, [1], [t, f, [t, f, [k], k]]] with t = string(k), f = k + 0.5
fn rendering_matches(v: &Val, k: i64) -> bool {
    let f = crate::engine::fbits(k as f64 + 0.5);
    let t = k.to_string();
    let is_t = |x: &Val| matches!(x, Val::Str(s) if *s == t);
    let is_f = |x: &Val| matches!(x, Val::Float(b) if *b == f);
    if let Val::Arr(_, w) = v {
        if w.len() != 4 || !matches!(&w[0], Val::Str(s) if s == "tekst") || !matches!(&w[1], Val::Float(b) if *b == crate::engine::fbits(2.5)) {
            return false;
        }
        if !matches!(&w[2], Val::Arr(_, one) if one.len() == 1 && one[0] == Val::Int(1)) {
            return false;
        }
        if let Val::Arr(_, outer) = &w[3] {
            if outer.len() == 3 && is_t(&outer[0]) && is_f(&outer[1]) {
                if let Val::Arr(_, r) = &outer[2] {
                    return r.len() == 4 && is_t(&r[0]) && is_f(&r[1]) && matches!(&r[2], Val::Arr(_, one) if one.len() == 1 && one[0] == Val::Int(k)) && r[3] == Val::Int(k);
                }
            }
        }
    }
    false
}

fn pending_family(rep: &mut Report) {
    let mut cases: Vec<(i64, bool)> = vec![(0, true), (1, true), (10, true), (500, true), (1500, true)];
    cases.extend((2036..=2056).map(|k| (k, true)));
    cases.extend([(2100, true), (3000, true), (4090, true), (4100, true), (6200, true)]);
    cases.extend([(3, false), (1000, false), (20_000, false)]);
    cases.extend((32_764..=32_772).map(|k| (k, false)));
    cases.extend([(33_000, false), (40_000, false), (65_536, false), (70_000, false)]);
    // third shape (global counter): the "wide" flag is not used, depths are marked by adding 1 000 000
    cases.extend([100i64, 2_000].into_iter().map(|k| (1_000_000 + k, false)));
    // (only depths beyond the limit: just below it every one of the 32 000 returns would run a collection over 65 000 objects)
    cases.extend((32_770..=32_776).map(|k| (1_000_000 + k, false)));
    cases.extend([33_000i64, 40_000, 50_000, 60_000, 65_000, 65_530, 65_540, 70_000].into_iter().map(|k| (1_000_000 + k, false)));
    let cases = std::sync::Arc::new(cases);
    let lanes = 8usize;
    let mut handles = Vec::new();
    for lane in 0..lanes {
        let cases = cases.clone();
        handles.push(
            std::thread::Builder::new()
                .stack_size(512 << 20)
                .spawn(move || {
                    crate::engine::install_gc_observer();
                    let mut out = Vec::new();
                    for (i, (k, wide)) in cases.iter().enumerate() {
                        if i % lanes == lane {
                            if *k >= 1_000_000 {
                                let k = *k - 1_000_000;
                                out.push((i, pending_counter_case(&pending_program_counter(k), k).err()));
                            } else {
                                out.push((i, pending_case(&pending_program(*k, *wide), *k).err()));
                            }
                        }
                    }
                    crate::engine::note_current("done", "");
                    out
                })
                .expect("spawn"),
        );
    }
    for h in handles {
        for (i, v) in h.join().expect("lane") {
            rep.eval();
            rep.count("pending-under-recursion");
            rep.nontrivial(&format!("pending-under-recursion:{:?}", cases[i]));
            if let Some(v) = v {
                rep.violation(v);
            }
        }
    }
    rep.sample(json!({"pending-under-recursion": pending_program(32_768, false)}));
}

pub fn run_check(ctx: &Ctx) -> Report {
    let mut rep = Report::new(
        "C03",
        "exploration",
        "(A) programs of the `alloc` profile (floats, strings, nested / aliased arrays kept in globals, locals, pending operands, arguments, array literals under construction and return values while functions are called: a collection runs at every return), \
         evaluated under the shadow heap (every dereference checked, freed blocks quarantined so that addresses are never reused) and compared with the reference interpreter; the collector observers check at every cycle that everything reachable from the roots at its start is live and unchanged at its end. \
         (B) histories of collector operations (allocate float/string/array, link, unlink, collect with a chosen root set incl. duplicates and unmanaged arrays, hand over) driving the collector directly, against a reachability model: \
         ALL histories of <=4 (quick) / <=5 (thorough) operations over a 3-object universe, random histories of <=40 operations over 8 objects. \
         (C) generated sessions on a retained compiler + VM (heap values in globals across runs, run-time failing lines, fresh objects stored into arrays of earlier lines, function calls), judged for memory safety. \
         (D) heap values reachable only from operands pending at the bottom of the stack while a recursion runs up to and past the stack limit, with 32-slot frames (every depth 2036 ... 2056 and further ones) and with 2-slot frames that can fill the stack to the last slot (every depth 32 764 ... 32 772 and further ones to 70 000): a value or the limit's error, and the pending values intact. \
         non-trivial = a collection ran while >=1 heap object was reachable and >=1 was garbage; distinct by program text / history",
    );
    rep.assumptions.push("shadow heap (hook H5) is the ground truth for freed / live".into());
    let known = load_known_findings();
    let cases = ctx.pick(120_000u32, 3_000_000u32) / ctx.shards as u32;
    let hist = ctx.pick(150_000u32, 4_000_000u32) / ctx.shards as u32;
    let sessions = ctx.pick(40_000u32, 1_000_000u32) / ctx.shards as u32;
    let seed = ctx.seed;
    let shards = ctx.shards;
    let enum_len = ctx.pick(4usize, 5usize);
    crate::engine::note_current("done", "");
    pending_family(&mut rep);
    par_shards(ctx.shards, rep, move |shard, r| {
        let cfg = DiffCfg { prop: "C03", driver: "alloc-programs", profile: Profile::alloc(), cases, max_len: 700, seed: seed.wrapping_mul(179_424_673) + shard as u64, layout: false };
        run_alloc_tapes(r, &cfg, &known);
        history_driver(r, "C03", false, seed.wrapping_mul(198_491_317) + shard as u64, hist, shard, shards, enum_len);
        // (C) the collector of a retained machine: sessions whose lines keep heap values in globals across runs, fail at run time,
        // store fresh objects into arrays of earlier lines and call functions (collections); judged for memory safety only
        let heap_class = |c: &str| c.contains("heap") || c.contains("gc:") || c.contains("result graph") || c.starts_with("crash:panic");
        let fail = run_tapes(seed.wrapping_mul(314_606_869) + shard as u64, sessions, 300, |tape, shrinking| {
            let lines = crate::props::c17::gen_session(tape);
            if !shrinking {
                r.eval();
                r.count("sessions");
                r.nontrivial(&format!("{lines:?}"));
            }
            match crate::props::c17::check_session(&lines) {
                Err(f) if heap_class(&f.0) => Err(f.0),
                _ => Ok(()),
            }
        });
        if let Some((tape, _)) = fail {
            let lines = crate::props::c17::gen_session(&tape);
            if let Err(f) = crate::props::c17::check_session(&lines) {
                let cls = f.0.clone();
                let small = crate::props::c17::minimize_session(&lines, &mut |l| matches!(crate::props::c17::check_session(l), Err(g) if g.0 == cls));
                if let Err(f) = crate::props::c17::check_session(&small) {
                    r.violation(Violation { property: "C03".into(), driver: "sessions".into(), class: f.0, case: f.1, expected: "no freed object is observed on a retained machine".into(), observed: f.3 });
                }
            }
        }
    })
}

/// like difftest::run_diff_tapes, with the heap statistics of the run deciding non-triviality
pub fn run_alloc_tapes(r: &mut Report, cfg: &DiffCfg, known: &[KnownFinding]) {
    let prop = cfg.prop;
    let profile = cfg.profile.clone();
    let fail = run_tapes(cfg.seed, cfg.cases, cfg.max_len, |tape, shrinking| {
        let (prog, _) = crate::gen::gen_program(tape, &profile);
        let out = diff_program(&prog);
        if !shrinking {
            r.eval();
            if let Some(o) = &out.obs {
                if o.heap.cycles > 0 {
                    r.count("programs-with-collections");
                }
                if o.heap.cycles_nontrivial > 0 {
                    r.count("programs-with-nontrivial-collection");
                }
                if o.heap.freed_by_cycles > 0 {
                    r.count("programs-where-a-cycle-freed-something");
                }
                r.count_n("objects-allocated", o.heap.allocated as u64);
                r.count_n("objects-freed-by-cycles", o.heap.freed_by_cycles as u64);
            }
        }
        match &out.verdict {
            Verdict::Agree => {
                if !shrinking {
                    if let Some(o) = &out.obs {
                        if o.heap.cycles_nontrivial > 0 {
                            r.nontrivial(&out.src);
                            if r.nontrivial.len() % 1500 == 1 {
                                r.sample(json!({"src": out.src, "heap": format!("{:?}", o.heap)}));
                            }
                        }
                    }
                }
                Ok(())
            }
            Verdict::Discard(why) => {
                if !shrinking {
                    r.count(&format!("discard:{}", why.split(':').next().unwrap_or(why)));
                }
                // the value may be unspecified (e.g. U1), memory safety never is: no freed object may be observed
                match &out.obs {
                    Some(o) if o.outcome.is_crash() || !o.events.is_empty() || o.heap.dead_in_result > 0 => Err("unsafe-in-unspecified-program".to_string()),
                    _ => Ok(()),
                }
            }
            Verdict::Violation { class, .. } => {
                let case = json!({"src": out.src});
                if known_match(known, prop, class, &case) {
                    if !shrinking {
                        r.count("excluded_by_known_finding");
                    }
                    Ok(())
                } else {
                    Err(class.clone())
                }
            }
        }
    });
    if let Some((tape, _)) = fail {
        let (prog, _) = crate::gen::gen_program(&tape, &profile);
        let first = diff_program(&prog);
        if let Verdict::Violation { class, .. } = first.verdict {
            let cls = class.clone();
            let small = crate::minimize::minimize(&prog, &mut |p| matches!(diff_program(p).verdict, Verdict::Violation { class: c, .. } if c == cls), 3000);
            let out = diff_program(&small);
            if let Verdict::Violation { class, expected, observed } = out.verdict {
                r.violation(Violation { property: prop.into(), driver: cfg.driver.into(), class, case: json!({"src": out.src, "tape": hex(&tape), "profile": profile.name}), expected, observed });
            }
        } else if let Some(o) = &first.obs {
            // unsafe behaviour of a program whose value is unspecified
            if o.outcome.is_crash() || !o.events.is_empty() || o.heap.dead_in_result > 0 {
                let unsafe_ = |p: &crate::ast::BlockStmt| {
                    let d = diff_program(p);
                    matches!(d.verdict, Verdict::Discard(_)) && d.obs.map(|o| o.outcome.is_crash() || !o.events.is_empty() || o.heap.dead_in_result > 0).unwrap_or(false)
                };
                let small = crate::minimize::minimize_any(&prog, &mut |p| unsafe_(p), 2000);
                let out = diff_program(&small);
                let o2 = out.obs.unwrap_or_else(|| o.clone());
                r.violation(Violation {
                    property: prop.into(),
                    driver: cfg.driver.into(),
                    class: "unsafe-in-unspecified-program".into(),
                    case: json!({"src": out.src, "safety_only": true}),
                    expected: "no freed object is observed, whatever the program's value is".into(),
                    observed: o2.render(),
                });
            }
        }
    }
}
