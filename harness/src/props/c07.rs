//! C07 — source text denotes one tree: precedence, associativity, layout-independence.
use crate::ast::*;
use crate::printer::*;
use crate::report::*;
use crate::tape::{run_tapes, Tape};
use serde_json::json;

fn parse_debug_of(text: &str) -> String {
    crate::engine::note_current("parse", text);
    match std::panic::catch_unwind(|| nederlang::parser::parse(text)) {
        Ok(Ok(t)) => format!("{t:?}"),
        Ok(Err(e)) => format!("parse error: {e:?}"),
        Err(p) => format!("panic: {}", crate::engine::classify_unwind(p).render()),
    }
}

fn viol(driver: &str, class: &str, text: &str, expect: &str, got: &str) -> Violation {
    Violation {
        property: "C07".into(),
        driver: driver.into(),
        class: class.into(),
        case: json!({"text": text, "expect_debug": expect}),
        expected: expect.to_string(),
        observed: got.to_string(),
    }
}

pub fn replay(case: &serde_json::Value) -> Option<Violation> {
    if let Some(tree) = case.get("tree").and_then(|t| t.as_str()) {
        // relation case: the tree is stored in Debug form
        let prog = crate::dbgparse::parse_debug_block(tree).ok()?;
        let lt = [0u8; 8];
        return check_relations(&prog, &lt).err().map(|(class, text, expect, got)| Violation {
            property: "C07".into(),
            driver: "replay".into(),
            class,
            case: json!({"relation_text": text, "tree": tree}),
            expected: expect,
            observed: got,
        });
    }
    let text = case.get("text")?.as_str()?;
    let expect = case.get("expect_debug")?.as_str()?;
    let got = parse_debug_of(text);
    if got != expect {
        Some(viol("replay", "tree-mismatch", text, expect, &got))
    } else {
        None
    }
}

/// checks one tree: canonical text and `layouts` random layouts
fn check_tree(r: &mut Report, driver: &str, prog: &BlockStmt, layout_tape: Option<&[u8]>, layouts: usize, count: bool) -> Result<(), (String, String, String, String)> {
    let expect = format!("{prog:?}");
    let text = print_canonical(prog);
    if count {
        r.eval();
    }
    let got = parse_debug_of(&text);
    if got != expect {
        return Err((format!("{driver}:canonical"), text, expect, got));
    }
    if let Some(tape) = layout_tape {
        let mut t = Tape::new(tape);
        for _ in 0..layouts {
            let (ltext, dev) = print_layout(prog, &mut t);
            if count {
                r.eval();
                if dev > 0 {
                    r.count("layouts-deviating");
                }
            }
            let got = parse_debug_of(&ltext);
            if got != expect {
                return Err((format!("{driver}:layout"), ltext, expect, got));
            }
        }
    }
    Ok(())
}

// ---------------------------------------------------------------------------------------
// (1) exhaustive expression trees

#[derive(Clone, Debug)]
enum Shape {
    Leaf,
    Node(Box<Shape>, Box<Shape>),
}

fn shapes(n: usize) -> Vec<Shape> {
    if n == 0 {
        return vec![Shape::Leaf];
    }
    let mut out = Vec::new();
    for l in 0..n {
        for a in shapes(l) {
            for b in shapes(n - 1 - l) {
                out.push(Shape::Node(Box::new(a.clone()), Box::new(b)));
            }
        }
    }
    out
}

fn leaf(k: usize) -> Expr {
    match k % 6 {
        0 => ident("a"),
        1 => int(7),
        2 => calln("f", vec![ident("x"), int(1)]),
        3 => index(ident("lijst"), int(0)),
        4 => neg(int(3)),         // printed as (-3) in operand position (U7)
        _ => not(ident("klaar")), // printed as (!klaar)
    }
}

fn build(shape: &Shape, ops: &[Operator], next_op: &mut usize, next_leaf: &mut usize) -> Expr {
    match shape {
        Shape::Leaf => {
            let e = leaf(*next_leaf);
            *next_leaf += 1;
            e
        }
        Shape::Node(l, r) => {
            let op = ops[*next_op];
            *next_op += 1;
            let le = build(l, ops, next_op, next_leaf);
            let re = build(r, ops, next_op, next_leaf);
            infix(le, op, re)
        }
    }
}

fn is_nontrivial_expr(e: &Expr) -> bool {
    // two operators of different level, or an equal-level pair (associativity)
    fn ops(e: &Expr, out: &mut Vec<Operator>) {
        if let Expr::Infix { left, operator, right } = e {
            out.push(*operator);
            ops(left, out);
            ops(right, out);
        }
    }
    let mut v = Vec::new();
    ops(e, &mut v);
    v.len() >= 2
}

fn exhaustive(r: &mut Report, shard: usize, shards: usize, layout_seed: u64) {
    let mut idx = 0usize;
    let mut runner = crate::tape::runner(layout_seed, 1);
    for n in 1..=3usize {
        let sh = shapes(n);
        let total = 13usize.pow(n as u32);
        for s in &sh {
            for code in 0..total {
                idx += 1;
                if idx % shards != shard {
                    continue;
                }
                let mut ops = Vec::new();
                let mut c = code;
                for _ in 0..n {
                    ops.push(BINOPS[c % 13]);
                    c /= 13;
                }
                let e = build(s, &ops, &mut 0, &mut (code % 6));
                check_family(r, "exhaustive-le3", &e, &mut runner);
            }
        }
    }
    // (1b) full binary trees of depth 3, operator uniform per level
    for a in 0..13 {
        for b in 0..13 {
            for c in 0..13 {
                idx += 1;
                if idx % shards != shard {
                    continue;
                }
                let lv = |k: usize| leaf(k);
                let l3 = |k: usize| infix(lv(k), BINOPS[c], lv(k + 1));
                let l2 = |k: usize| infix(l3(k), BINOPS[b], l3(k + 2));
                let e = infix(l2(0), BINOPS[a], l2(4));
                check_family(r, "exhaustive-full-depth3", &e, &mut runner);
            }
        }
    }
}

/// the tree as an expression statement, as an initialiser, under assignment and under every op-assignment
fn check_family(r: &mut Report, driver: &str, e: &Expr, runner: &mut proptest::test_runner::TestRunner) {
    use proptest::prelude::RngCore;
    let mut tape = vec![0u8; 256];
    runner.rng().fill_bytes(&mut tape);
    let progs: Vec<BlockStmt> = vec![
        vec![es(e.clone())],
        vec![let_("uit", e.clone())],
        vec![es(assign(ident("doel"), e.clone()))],
        vec![es(assign(index(ident("doel"), int(1)), e.clone()))],
    ];
    for p in &progs {
        if is_nontrivial_expr(e) {
            r.nontrivial(&format!("{p:?}"));
        }
        if let Err((class, text, expect, got)) = check_tree(r, driver, p, Some(&tape), 2, true) {
            r.violation(viol(driver, &class, &text, &expect, &got));
        }
    }
    // `doel op= e` must be `doel = doel op (e)` for every operator
    if let Expr::Infix { operator, .. } = e {
        let _ = operator;
    }
    for op in BINOPS {
        let text = format!("doel {} = {}", op.text(), print_expr(e));
        let expect = format!("{:?}", vec![es(assign(ident("doel"), infix(ident("doel"), op, e.clone())))]);
        r.eval();
        r.count("op-assign");
        let got = parse_debug_of(&text);
        if got != expect {
            r.violation(viol(driver, &format!("{driver}:op-assign"), &text, &expect, &got));
        }
    }
}

// ---------------------------------------------------------------------------------------
// (2) random statement-level trees over the whole grammar (syntactic, not necessarily well-typed)

pub const IDENTS: [&str; 12] = ["a", "b", "x", "lijst", "alsof", "stopt", "ja_", "_nee", "één", "functie2", "zolang_", "f"];
const STRS: [&str; 10] = ["", "a", "hallo wereld", "é€", "{}", "// geen opmerking", "a;b", "(", "stel x = 1", "𝄞"];

struct SynGen<'a, 'b> {
    t: &'a mut Tape<'b>,
    nodes: usize,
}

impl<'a, 'b> SynGen<'a, 'b> {
    fn name(&mut self) -> String {
        self.t.pick_str(&IDENTS).to_string()
    }
    fn block(&mut self, d: usize) -> BlockStmt {
        let n = self.t.below(4);
        (0..n).map(|_| self.stmt(d)).collect()
    }
    fn stmt(&mut self, d: usize) -> Stmt {
        self.nodes += 1;
        match self.t.below(9) {
            0 => {
                let n = self.name();
                Stmt::Let(n, self.expr(d))
            }
            1 => Stmt::Return(self.expr(d)),
            2 if d > 0 => Stmt::Block(self.block(d - 1)),
            3 => Stmt::Break,
            4 => Stmt::Continue,
            _ => {
                // a function literal may not start an expression that continues with an operator; as a statement it is fine
                Stmt::Expr(self.expr(d))
            }
        }
    }
    fn atom(&mut self) -> Expr {
        match self.t.below(6) {
            0 => int(self.t.range(0, 1000)),
            1 => float(self.t.range(0, 4000) as f64 / 8.0),
            2 => boolean(self.t.maybe(128)),
            3 => string(self.t.pick_str(&STRS)),
            _ => ident(&self.name()),
        }
    }
    /// an expression that may stand as an infix operand (no function literal)
    fn operand(&mut self, d: usize) -> Expr {
        loop {
            let e = self.expr(d);
            if !matches!(e, Expr::Function { .. }) {
                return e;
            }
        }
    }
    fn expr(&mut self, d: usize) -> Expr {
        self.nodes += 1;
        if d == 0 || self.nodes > 120 || self.t.exhausted() {
            return self.atom();
        }
        match self.t.below(16) {
            0 | 1 => self.atom(),
            2 | 3 | 4 | 5 => {
                let op = *self.t.pick(&BINOPS);
                let l = self.operand(d - 1);
                let r = self.operand(d - 1);
                infix(l, op, r)
            }
            6 => {
                let e = self.operand(d - 1);
                if self.t.maybe(128) {
                    neg(e)
                } else {
                    not(e)
                }
            }
            7 => {
                // if with an else-if chain of length up to 4
                let mut chain = self.t.below(5);
                let c = self.operand(d - 1);
                let t = self.block(d - 1);
                let mut alt: Option<BlockStmt> = if self.t.maybe(128) { Some(self.block(d - 1)) } else { None };
                while chain > 0 {
                    chain -= 1;
                    let c2 = self.operand(d - 1);
                    let t2 = self.block(d - 1);
                    alt = Some(vec![es(iff(c2, t2, alt))]);
                }
                iff(c, t, alt)
            }
            8 => {
                let c = self.operand(d - 1);
                let b = self.block(d - 1);
                whil(c, b)
            }
            9 => {
                let name = if self.t.maybe(128) { self.name() } else { String::new() };
                let np = self.t.below(4);
                let params: Vec<String> = (0..np).map(|_| self.name()).collect();
                let body = self.block(d - 1);
                Expr::Function { name, parameters: params, body }
            }
            10 | 11 => {
                let callee = if self.t.maybe(200) {
                    ident(&self.name())
                } else {
                    let np = self.t.below(3);
                    let params: Vec<String> = (0..np).map(|_| self.name()).collect();
                    let body = self.block(d - 1);
                    Expr::Function { name: String::new(), parameters: params, body }
                };
                let n = self.t.below(4);
                let args = (0..n).map(|_| self.expr(d - 1)).collect();
                call(callee, args)
            }
            12 => {
                let target = if self.t.maybe(150) {
                    ident(&self.name())
                } else {
                    let i = self.expr(d - 1);
                    index(ident(&self.name()), i)
                };
                let r = self.expr(d - 1);
                // op-assignment shape now and then
                if let (Expr::Identifier(n), true) = (&target, self.t.maybe(100)) {
                    let op = *self.t.pick(&BINOPS);
                    let r2 = self.operand(d - 1);
                    return assign(ident(n), infix(ident(n), op, r2));
                }
                assign(target, r)
            }
            13 => {
                let n = self.t.below(4);
                array((0..n).map(|_| self.expr(d - 1)).collect())
            }
            _ => {
                let base = match self.t.below(3) {
                    0 => ident(&self.name()),
                    1 => {
                        let n = self.t.below(3);
                        array((0..n).map(|_| self.expr(d - 1)).collect())
                    }
                    _ => string(self.t.pick_str(&STRS)),
                };
                let i = self.expr(d - 1);
                index(base, i)
            }
        }
    }
}

/// Relations between parses that hold whatever tree a text denotes (so they also cover texts outside U7):
/// (1) context independence: a statement that is terminated by `;` denotes the same tree wherever it stands, i.e.
///     parse(A; B; C) = parse(A;) ++ parse(B;) ++ parse(C;);  (2) layout independence of a token sequence.
fn check_relations(prog: &BlockStmt, layout_tape: &[u8]) -> Result<(), (String, String, String, String)> {
    let inner = |d: String| -> Option<String> { d.strip_prefix('[').and_then(|x| x.strip_suffix(']')).map(|x| x.to_string()) };
    let whole_text = print_raw(prog);
    let whole = parse_debug_of(&whole_text);
    if whole.starts_with("parse error") || whole.starts_with("panic") {
        // raw texts need not parse (e.g. a function literal that became an infix operand); nothing to relate then
        return Ok(());
    }
    let mut parts = Vec::new();
    for s in prog {
        let t = print_raw(&vec![s.clone()]);
        let d = parse_debug_of(&t);
        match inner(d.clone()) {
            Some(x) if !d.starts_with("parse error") => parts.push(x),
            _ => return Err(("relation:context".into(), t, "a statement of a text that parses, parses on its own as well".into(), d)),
        }
    }
    let joined = format!("[{}]", parts.join(", "));
    if joined != whole {
        return Err(("relation:context".into(), whole_text, format!("the statements one by one: {joined}"), whole));
    }
    let mut t = Tape::new(layout_tape);
    for _ in 0..2 {
        let l = print_raw_layout(prog, &mut t);
        let d = parse_debug_of(&l);
        if d != whole {
            return Err(("relation:layout".into(), l, whole, d));
        }
    }
    Ok(())
}

pub fn gen_syntax(tape: &[u8]) -> (BlockStmt, usize) {
    let mut t = Tape::new(tape);
    let mut g = SynGen { t: &mut t, nodes: 0 };
    let n = 1 + g.t.below(5);
    let prog: BlockStmt = (0..n).map(|_| g.stmt(4)).collect();
    let used = t.used();
    (prog, used)
}

fn tree_nontrivial(p: &BlockStmt) -> bool {
    // mixed operators or an else-if chain of length >= 2 somewhere
    let d = format!("{p:?}");
    d.matches("Infix").count() >= 2 || d.matches("alternative: Some([Expr(If").count() >= 2
}

pub fn run(ctx: &Ctx) -> Report {
    let mut rep = Report::new(
        "C07",
        "exploration",
        "(1) ALL expression trees with <=3 binary operators (every Catalan shape x every operator tuple) and ALL full depth-3 trees with one operator per level, \
         each as statement / initialiser / assignment / element assignment and under every op-assignment; (2) random statement-level syntax trees over the whole grammar \
         (else-if chains <=4); every tree printed with minimal parentheses and under random layouts (all whitespace code points, line comments, redundant parentheses, \
         optional `;` `,` present or absent, `anders als` vs `anders { als }`, `a op= e` sugar); oracle: Debug(parse(text)) == Debug(tree); \
         plus two relations on texts printed without the U7 parentheses (whatever tree they denote): a `;`-terminated statement denotes the same tree wherever it stands, and a token sequence denotes the same tree under every layout. \
         non-trivial = tree with >=2 binary operators or an else-if chain >=2; distinct by tree",
    );
    rep.exhaustive = false;
    rep.extra.insert("exhaustive_parts".into(), json!(["expression trees with <=3 binary operators: 13 + 2*169 + 5*2197 = 11336 trees", "full depth-3 trees, operator uniform per level: 2197 trees"]));
    rep.assumptions.push("U7: a prefix expression in operand position and a non-atomic prefix operand are always parenthesised".into());
    rep.assumptions.push("U18: trees respect the parser's restrictions on callees, indexed expressions and assignment targets".into());
    let seed = ctx.seed;
    let cases = ctx.pick(800_000u32, 20_000_000u32) / ctx.shards as u32;
    let shards = ctx.shards;
    let mut rep = par_shards(ctx.shards, rep, move |shard, r| {
        exhaustive(r, shard, shards, seed.wrapping_mul(31) + shard as u64);
        let fail = run_tapes(seed.wrapping_mul(6151) + shard as u64, cases, 400, |tape, shrinking| {
            let (prog, used) = gen_syntax(tape);
            if !shrinking {
                r.count("random-trees");
                if tree_nontrivial(&prog) {
                    r.nontrivial(&format!("{prog:?}"));
                    if r.nontrivial.len() % 4000 == 3 {
                        r.sample(json!({"text": print_canonical(&prog)}));
                        let mut t = Tape::new(&tape[used.min(tape.len())..]);
                        r.sample(json!({"layout": print_layout(&prog, &mut t).0}));
                    }
                }
            }
            let lt = &tape[used.min(tape.len())..];
            check_tree(r, "random", &prog, Some(lt), 3, !shrinking).map_err(|e| e.0)?;
            if !shrinking {
                r.eval();
                r.count("relations");
            }
            check_relations(&prog, lt).map_err(|e| e.0)
        });
        if let Some((tape, _)) = fail {
            let (prog, used) = gen_syntax(&tape);
            let lt: Vec<u8> = tape[used.min(tape.len())..].to_vec();
            let mut scratch = Report::new("C07", "exploration", "");
            if check_tree(&mut scratch, "random", &prog, Some(&lt), 3, false).is_ok() {
                if let Err((class, ..)) = check_relations(&prog, &lt) {
                    let small = crate::minimize::minimize_any(&prog, &mut |p| matches!(check_relations(p, &lt), Err((c, ..)) if c == class), 4000);
                    if let Err((class, text, expect, got)) = check_relations(&small, &lt) {
                        r.violation(Violation { property: "C07".into(), driver: "relations".into(), class, case: json!({"relation_text": text, "tree": format!("{small:?}")}), expected: expect, observed: got });
                    }
                }
            }
            if let Err((class, ..)) = check_tree(&mut scratch, "random", &prog, Some(&lt), 3, false) {
                let small = crate::minimize::minimize(
                    &prog,
                    &mut |p| matches!(check_tree(&mut Report::new("C07", "exploration", ""), "random", p, Some(&lt), 3, false), Err((c, ..)) if c == class),
                    4000,
                );
                if let Err((class, text, expect, got)) = check_tree(&mut scratch, "random", &small, Some(&lt), 3, false) {
                    r.violation(viol("random", &class, &text, &expect, &got));
                }
            }
        }
    });
    rep.sample(json!({"text": "doel <= = a * 7 + f ( x , 1 )", "means": "doel = doel <= (a * 7 + f(x, 1))"}));
    wide_trees(&mut rep, seed);
    rep
}

/// (4) wide trees: n siblings in one list (array elements, arguments, statements of a program / a block / a function body,
/// parameters, rows of a table), each sibling a small tree. The tree is only a few levels deep whatever n is, so no limit
/// on nesting applies; the text must still denote exactly this tree.
fn wide_trees(rep: &mut Report, seed: u64) {
    let element = |kind: usize, k: usize| -> Expr {
        let a = ident(["a", "b", "c"][k % 3]);
        match kind {
            0 => a,
            1 => infix(a, Operator::Add, int((k % 7) as i64)),
            2 => array(vec![a, int(1)]),
            3 => calln("f", vec![a, int(2)]),
            _ => infix(infix(a, Operator::Multiply, int(2)), Operator::Subtract, calln("f", vec![int(1)])),
        }
    };
    let mut runner = crate::tape::runner(seed.wrapping_mul(40_503), 1);
    for n in [2usize, 10, 200, 998, 999, 1000, 1001, 1500, 5000] {
        for kind in 0..5 {
            let items: Vec<Expr> = (0..n).map(|k| element(kind, k)).collect();
            let stmts: BlockStmt = items.iter().cloned().map(es).collect();
            let rows = (n as f64).sqrt() as usize + 1;
            let table = array((0..rows).map(|i| array((0..rows).map(|j| element(kind, i * rows + j)).collect())).collect());
            let params: Vec<String> = (0..n).map(|k| format!("p{k}")).collect();
            let params_ref: Vec<&str> = params.iter().map(|s| s.as_str()).collect();
            let trees: Vec<(&str, BlockStmt)> = vec![
                ("array-elements", vec![es(array(items.clone()))]),
                ("arguments", vec![es(calln("g", items.clone()))]),
                ("program-statements", stmts.clone()),
                ("block-statements", vec![Stmt::Block(stmts.clone()), es(int(1))]),
                ("function-body", vec![es(func("h", &[], stmts.clone())), es(int(1))]),
                ("if-branch", vec![es(iff(boolean(true), stmts.clone(), Some(stmts.clone())))]),
                ("loop-body", vec![es(whil(boolean(false), stmts.clone()))]),
                ("parameters", vec![es(func("h", &params_ref, vec![es(int(1))])), es(int(1))]),
                ("table", vec![let_("t", table)]),
            ];
            for (family, prog) in trees {
                use proptest::prelude::RngCore;
                let mut lt = vec![0u8; 4096];
                runner.rng().fill_bytes(&mut lt);
                rep.count("wide-trees");
                rep.nontrivial(&format!("wide:{family}:{n}:{kind}"));
                if let Err((class, text, expect, got)) = check_tree(rep, "wide", &prog, Some(&lt), 1, true) {
                    let mut v = viol("wide", &format!("{class}:{family}"), &text, &expect, &got);
                    v.expected = format!("the tree with {n} siblings ({family}, element kind {kind}) that the text was printed from");
                    v.observed = got.chars().take(300).collect();
                    rep.violation(v);
                }
            }
        }
    }
    rep.sample(json!({"wide": "[a, b + 1, c + 2, ... 1000 elements]", "expects": "the flat tree, however many siblings"}));
}
