//! C16 — evaluation is a pure function of the program text.
use crate::engine::*;
use crate::gen::*;
use crate::printer::print_canonical;
use crate::report::*;
use proptest::prelude::RngCore;
use serde_json::{json, Value};
use std::io::Write;

const BUDGET: u64 = 150_000;

fn observe(src: &str) -> String {
    run_eval(src, &RunCfg { budget: BUDGET, audit_heap: true }).render()
}

/// the batch of programs, a pure function of the seed
fn batch(seed: u64, n: usize) -> Vec<String> {
    let mut runner = crate::tape::runner(seed ^ 0xC16, 1);
    let profiles = [Profile::general(), Profile::alloc(), Profile::calls()];
    let mut out = Vec::new();
    let mut k = 0;
    while out.len() < n {
        let mut tape = vec![0u8; 500];
        runner.rng().fill_bytes(&mut tape);
        let (prog, _) = gen_program(&tape, &profiles[k % 3]);
        k += 1;
        let src = print_canonical(&prog);
        if !out.contains(&src) {
            out.push(src);
        }
    }
    // a few fixed programs that exercise what differs between build profiles and what could be cached between evaluations
    out.push("1152921504606846975 + 1".into());
    out.push("functie f(x) { x * x } f(1073741824) + f(3)".into());
    out.push("stel s = \"abc\"; s[0] = \"x\"; s".into());
    out.push("functie g() { \"lit\" } stel t = g(); t[0] = \"L\"; [t, g()]".into());
    out.push("print(\"{} {}\", 1.5, [1, \"a\"]); [0.1 + 0.2, 7 / 2, -7 % 3]".into());
    // the directed boundary corpus of C05 (short programs only): range ends, conversions, limits are where build profiles differ
    for (_, text) in crate::props::c05::directed_corpus() {
        if text.len() < 400 && !out.contains(&text) {
            out.push(text);
        }
    }
    for extra in [
        "8070450532247928832", "9223372036854775807", "int(\"9000000000000000000\")", "int(\"-9223372036854775808\")", "int(9.0 * 1000000000000000000.0)",
        "int(-9.3 * 1000000000000000000.0)", "1152921504606846975 * 8", "functie f(x) { x * 1152921504606846975 } f(8)", "-1152921504606846975 - 2", "1152921504606846975 - (-1152921504606846975)",
        "stel t = type(1); t[0] = \"p\"; [t, type(2)]", "stel a = 1; { stel a = 2; } a", "als ja { stel geheim = 42 } geheim",
    ] {
        out.push(extra.into());
    }
    out
}

/// child mode: evaluate the programs of a batch file (one JSON array) and print one observation per line;
/// `only` = a single index (fresh process per program) or None (whole batch in order)
pub fn child_eval(path: &str, only: Option<usize>) {
    let text = std::fs::read_to_string(path).unwrap_or_default();
    let progs: Vec<String> = serde_json::from_str(&text).unwrap_or_default();
    install_gc_observer();
    let stdout = std::io::stdout();
    let mut lock = stdout.lock();
    match only {
        Some(i) => {
            let _ = writeln!(lock, "OBS {}", json!(observe(&progs[i])));
        }
        None => {
            for p in &progs {
                let _ = writeln!(lock, "OBS {}", json!(observe(p)));
            }
        }
    }
}

fn run_child(profile: &str, path: &std::path::Path, only: Option<usize>) -> Vec<String> {
    let exe = verif_dir().join("harness/target").join(profile).join("nlv");
    let mut cmd = std::process::Command::new(&exe);
    cmd.arg("C16").arg("--batch").arg(path).arg("--inner");
    if let Some(i) = only {
        cmd.arg("--only").arg(i.to_string());
    }
    let out = cmd.output().unwrap_or_else(|e| {
        eprintln!("cannot run {}: {e}", exe.display());
        std::process::exit(2)
    });
    if !out.status.success() {
        return vec![format!("PROCESS DIED: {:?}", out.status)];
    }
    String::from_utf8_lossy(&out.stdout).lines().filter_map(|l| l.strip_prefix("OBS ")).filter_map(|j| serde_json::from_str::<String>(j).ok()).collect()
}

pub fn replay(case: &Value) -> Option<Violation> {
    // re-evaluate the program twice in this process, with another program in between, and in a thread
    let src = case.get("src")?.as_str()?;
    let a = observe(src);
    let _ = observe("stel x = [1.5, \"a\"]; functie f() { x } f()");
    let b = observe(src);
    let src2 = src.to_string();
    let c = std::thread::spawn(move || {
        install_gc_observer();
        observe(&src2)
    })
    .join()
    .ok()?;
    let want = case.get("reference").and_then(|r| r.as_str()).unwrap_or(&a).to_string();
    if a != want || b != want || c != want {
        return Some(Violation { property: "C16".into(), driver: "replay".into(), class: "differs".into(), case: case.clone(), expected: want, observed: format!("{a} / {b} / {c}") });
    }
    None
}

pub fn run_check(ctx: &Ctx) -> Report {
    let mut rep = Report::new(
        "C16",
        "exploration",
        "a batch of generated programs (profiles general, alloc, calls) plus fixed programs that differ between build profiles or could be cached: (a) each program in a fresh process (checked build) = the reference observation; \
         (b) the whole batch three times in one process in seeded random orders; (c) 16 threads, each repeatedly taking a seeded random program, at least 20 evaluations per program in total; \
         (d) each program in a fresh process of the release-like build (no debug assertions, no overflow checks). Every observation (value graph, output, error kind, hook events) must equal the reference of the same program. \
         non-trivial = program that allocates and calls (so that a collector runs) or prints; distinct by text",
    );
    rep.assumptions.push("the harness chooses which program a thread runs next, not instruction interleavings: the crate has no synchronisation and no shared state to interleave on; a regression that introduces process-wide state is what (b)/(c) detect".into());
    let n = ctx.pick(1500usize, 12000usize);
    let progs = batch(ctx.seed, n);
    let dir = verif_dir().join("work");
    let _ = std::fs::create_dir_all(&dir);
    let path = dir.join(format!("c16-batch-{}.json", std::process::id()));
    std::fs::write(&path, serde_json::to_string(&progs).unwrap()).expect("write batch");
    let mut viol = |rep: &mut Report, driver: &str, class: &str, i: usize, want: &str, got: &str| {
        rep.violation(Violation {
            property: "C16".into(),
            driver: driver.into(),
            class: class.into(),
            case: json!({"src": progs[i], "reference": want}),
            expected: want.to_string(),
            observed: got.to_string(),
        });
    };
    // (a) fresh process per program, 16 at a time
    crate::engine::note_current("done", "");
    let reference: Vec<String> = {
        let mut out = vec![String::new(); progs.len()];
        let idx: Vec<usize> = (0..progs.len()).collect();
        for chunk in idx.chunks(16) {
            let hs: Vec<_> = chunk
                .iter()
                .map(|i| {
                    let (p, i) = (path.clone(), *i);
                    std::thread::spawn(move || (i, run_child("checked", &p, Some(i))))
                })
                .collect();
            for h in hs {
                let (i, v) = h.join().expect("join");
                out[i] = v.first().cloned().unwrap_or_else(|| "NO OUTPUT".into());
            }
        }
        out
    };
    for (i, r) in reference.iter().enumerate() {
        rep.eval();
        rep.count("fresh-process");
        if r.contains("PANIC") || r.contains("TRAP") || r.contains("PROCESS DIED") || r.contains("events=") {
            viol(&mut rep, "fresh-process", "crash", i, "no crash", r);
        }
        let allocs_and_calls = progs[i].contains("functie") && (progs[i].contains('"') || progs[i].contains('[') || progs[i].contains('.'));
        if allocs_and_calls || progs[i].contains("print") {
            rep.nontrivial(&progs[i]);
        }
    }
    rep.sample(json!({"src": progs[0], "reference": reference[0]}));
    rep.sample(json!({"src": progs[progs.len() - 2], "reference": reference[progs.len() - 2]}));
    // (d) fresh process per program, release-like build
    {
        let idx: Vec<usize> = (0..progs.len()).collect();
        for chunk in idx.chunks(16) {
            let hs: Vec<_> = chunk
                .iter()
                .map(|i| {
                    let (p, i) = (path.clone(), *i);
                    std::thread::spawn(move || (i, run_child("fast", &p, Some(i))))
                })
                .collect();
            for h in hs {
                let (i, v) = h.join().expect("join");
                rep.eval();
                rep.count("fresh-process-fast-profile");
                let got = v.first().cloned().unwrap_or_else(|| "NO OUTPUT".into());
                if got != reference[i] {
                    viol(&mut rep, "build-profile", "differs:build-profile", i, &reference[i], &got);
                }
            }
        }
    }
    // (b) three passes in this process, seeded random orders
    let mut runner = crate::tape::runner(ctx.seed ^ 0xB16, 1);
    for pass in 0..3 {
        let mut order: Vec<usize> = (0..progs.len()).collect();
        for i in (1..order.len()).rev() {
            let j = (runner.rng().next_u64() % (i as u64 + 1)) as usize;
            order.swap(i, j);
        }
        for i in order {
            rep.eval();
            rep.count("same-process");
            let got = observe(&progs[i]);
            if got != reference[i] {
                viol(&mut rep, &format!("same-process-pass{pass}"), "differs:history", i, &reference[i], &got);
            }
        }
    }
    // (c) 16 threads (this thread only waits from here on)
    crate::engine::note_current("done", "");
    let per_thread = progs.len() * 20 / 16 + 1;
    let progs_arc = std::sync::Arc::new(progs.clone());
    let ref_arc = std::sync::Arc::new(reference.clone());
    let seed = ctx.seed;
    let hs: Vec<_> = (0..16)
        .map(|th| {
            let (progs, reference) = (progs_arc.clone(), ref_arc.clone());
            std::thread::Builder::new()
                .stack_size(256 << 20)
                .spawn(move || {
                    install_gc_observer();
                    let mut runner = crate::tape::runner(seed ^ (0x7C16 + th as u64), 1);
                    let mut bad: Vec<(usize, String)> = Vec::new();
                    let mut n = 0u64;
                    for _ in 0..per_thread {
                        let i = (runner.rng().next_u64() % progs.len() as u64) as usize;
                        let got = observe(&progs[i]);
                        n += 1;
                        if got != reference[i] && bad.len() < 3 {
                            bad.push((i, got));
                        }
                    }
                    (n, bad)
                })
                .expect("spawn")
        })
        .collect();
    for h in hs {
        let (n, bad) = h.join().expect("join");
        rep.evaluations += n;
        rep.count_n("threads", n);
        for (i, got) in bad {
            viol(&mut rep, "threads", "differs:threads", i, &reference[i], &got);
        }
    }
    let _ = std::fs::remove_file(&path);
    rep
}
