//! C15 — the value encoding is lossless and collision-free (direct API tests on Object).
use crate::lattice;
use crate::report::*;
use crate::tape::{run_tapes, Tape};
use nederlang::object::{FromString, FromVec, Object, Type};
use nederlang::verif::GC;
use serde_json::json;
use std::panic::{catch_unwind, AssertUnwindSafe};

#[derive(Clone, Debug, PartialEq)]
pub enum Spec {
    Null,
    Bool(bool),
    Int(i64),
    Func(u32, u16),
    Float(u64),
    Str(String),
    Arr(Vec<Spec>),
}

impl Spec {
    fn render(&self) -> String {
        match self {
            Spec::Null => "null".into(),
            Spec::Bool(b) => format!("bool {b}"),
            Spec::Int(i) => format!("int {i}"),
            Spec::Func(o, c) => format!("function(offset={o}, locals={c})"),
            Spec::Float(b) => format!("float bits={b:#018x} ({:?})", f64::from_bits(*b)),
            Spec::Str(s) => format!("string {s:?}"),
            Spec::Arr(v) => format!("[{}]", v.iter().map(|x| x.render()).collect::<Vec<_>>().join(", ")),
        }
    }
    fn type_name(&self) -> &'static str {
        match self {
            Spec::Null => "null",
            Spec::Bool(_) => "bool",
            Spec::Int(_) => "int",
            Spec::Func(..) => "function",
            Spec::Float(_) => "float",
            Spec::Str(_) => "string",
            Spec::Arr(_) => "array",
        }
    }
    fn nontrivial(&self) -> bool {
        match self {
            Spec::Null | Spec::Bool(_) => false,
            Spec::Int(i) => *i < 0 || i.unsigned_abs() >= 1 << 31,
            Spec::Func(o, c) => *o != 0 || *c != 0,
            Spec::Float(b) => {
                let f = f64::from_bits(*b);
                f.is_nan() || (f == 0.0 && f.is_sign_negative()) || f.is_subnormal() || f.is_infinite() || true
            }
            Spec::Str(s) => !s.is_ascii() || s.len() > 8,
            Spec::Arr(v) => v.iter().any(|x| matches!(x, Spec::Arr(_) | Spec::Str(_) | Spec::Float(_))),
        }
    }
}

const OFFSETS: [u32; 11] = [0, 1, 2, 255, 256, 65_535, 65_536, (1 << 31) - 1, 1 << 31, (1u32 << 31) + 1, u32::MAX];
const COUNTS: [u16; 6] = [0, 1, 2, 255, 256, 65_535];

const STR_ALPHABET: [&str; 14] = ["a", "Z", "0", " ", "\"", "\\", "\n", "{", "}", "é", "ß", "€", "𝄞", "\u{0}"];

fn gen_string(t: &mut Tape) -> String {
    let n = t.below(12);
    let mut s = String::new();
    for _ in 0..n {
        if t.maybe(40) {
            // arbitrary scalar value
            let c = char::from_u32((t.u64() % 0x11_0000) as u32).unwrap_or('x');
            s.push(c);
        } else {
            let c: &&str = t.pick(&STR_ALPHABET);
            s.push_str(c);
        }
    }
    s
}

fn gen_float_bits(t: &mut Tape) -> u64 {
    match t.below(8) {
        0 => 0,
        1 => (-0.0f64).to_bits(),
        2 => f64::INFINITY.to_bits(),
        3 => f64::NEG_INFINITY.to_bits(),
        4 => 0x7ff0_0000_0000_0000 | (t.u64() & 0x000f_ffff_ffff_ffff) | 1, // NaN with payload (quiet or signalling)
        5 => t.u64() & 0x000f_ffff_ffff_ffff,                              // subnormal
        6 => (t.range(-1000, 1000) as f64 / 8.0).to_bits(),
        _ => t.u64(),
    }
}

pub fn gen_spec(t: &mut Tape, depth: usize, lat: &[i64]) -> Spec {
    let k = if depth >= 3 { t.below(6) } else { t.below(7) };
    match k {
        0 => Spec::Null,
        1 => Spec::Bool(t.maybe(128)),
        2 => {
            if t.maybe(128) {
                Spec::Int(*t.pick(lat))
            } else {
                // random 61-bit value
                let raw = t.u64() as i64;
                Spec::Int(raw >> 3)
            }
        }
        3 => {
            if t.maybe(128) {
                Spec::Func(*t.pick(&OFFSETS), *t.pick(&COUNTS))
            } else {
                Spec::Func(t.u64() as u32, t.u64() as u16)
            }
        }
        4 => Spec::Float(gen_float_bits(t)),
        5 => Spec::Str(gen_string(t)),
        _ => {
            let n = t.below(5);
            Spec::Arr((0..n).map(|_| gen_spec(t, depth + 1, lat)).collect())
        }
    }
}

/// Builds the object; heap objects are registered with `gc` by the constructors
pub fn build(s: &Spec, gc: &mut GC) -> Object {
    match s {
        Spec::Null => Object::null(),
        Spec::Bool(b) => Object::bool(*b),
        Spec::Int(i) => Object::int(*i as isize),
        Spec::Func(o, c) => Object::function(*o, *c),
        Spec::Float(b) => Object::float(f64::from_bits(*b), gc),
        Spec::Str(x) => Object::string(x.as_str(), gc),
        Spec::Arr(v) => {
            let items: Vec<Object> = v.iter().map(|x| build(x, gc)).collect();
            // both constructors: from a vector (odd lengths) and from a slice (even lengths)
            if items.len() % 2 == 0 {
                Object::array(&items[..], gc)
            } else {
                Object::array(items, gc)
            }
        }
    }
}

/// Reads the object back and compares it with its specification
pub fn read_back(s: &Spec, o: Object) -> Result<(), String> {
    let want_tag = match s {
        Spec::Null => Type::Null,
        Spec::Bool(_) => Type::Bool,
        Spec::Int(_) => Type::Int,
        Spec::Func(..) => Type::Function,
        Spec::Float(_) => Type::Float,
        Spec::Str(_) => Type::String,
        Spec::Arr(_) => Type::Array,
    };
    if o.tag() != want_tag {
        return Err(format!("tag() is {:?}, expected {:?}", o.tag(), want_tag));
    }
    let heap = matches!(s, Spec::Float(_) | Spec::Str(_) | Spec::Arr(_));
    if o.is_heap_allocated() != heap {
        return Err(format!("is_heap_allocated() is {}, expected {}", o.is_heap_allocated(), heap));
    }
    if heap && crate::engine::obj_addr(o) % 8 != 0 {
        return Err("heap box is not 8-aligned".into());
    }
    if heap && crate::engine::obj_word(o) & 7 != want_tag as usize {
        return Err("tag bits of a heap object are wrong".into());
    }
    match s {
        Spec::Null => {
            if o != Object::null() {
                return Err("null is not equal to null".into());
            }
        }
        Spec::Bool(b) => {
            if o.as_bool() != *b {
                return Err(format!("as_bool() is {}", o.as_bool()));
            }
        }
        Spec::Int(i) => {
            if o.as_int() as i64 != *i {
                return Err(format!("as_int() is {}", o.as_int()));
            }
        }
        Spec::Func(off, c) => {
            let [a, b] = o.as_function();
            if a != *off || b != *c as u32 {
                return Err(format!("as_function() is [{a}, {b}]"));
            }
        }
        Spec::Float(b) => {
            let got = o.as_f64().to_bits();
            if got != *b {
                return Err(format!("as_f64() bits are {got:#018x}"));
            }
        }
        Spec::Str(x) => {
            if o.as_str() != x {
                return Err(format!("as_str() is {:?}", o.as_str()));
            }
        }
        Spec::Arr(v) => {
            let items = o.as_vec().clone();
            if items.len() != v.len() {
                return Err(format!("as_vec() has length {}", items.len()));
            }
            for (x, y) in v.iter().zip(items) {
                read_back(x, y)?;
            }
        }
    }
    Ok(())
}

pub fn release(o: Object, gc: &mut GC) {
    gc.untrace(o);
    fn rec(o: Object) {
        if o.tag() == Type::Array {
            for x in o.as_vec().clone() {
                rec(x);
            }
        }
        o.free();
    }
    rec(o);
}

/// the oracle for `a == b`
fn spec_eq(a: &Spec, b: &Spec) -> Option<bool> {
    Some(match (a, b) {
        (Spec::Arr(_), Spec::Arr(_)) => return None, // U11
        (Spec::Null, Spec::Null) => true,
        (Spec::Bool(x), Spec::Bool(y)) => x == y,
        (Spec::Int(x), Spec::Int(y)) => x == y,
        (Spec::Func(a1, a2), Spec::Func(b1, b2)) => a1 == b1 && a2 == b2,
        (Spec::Float(x), Spec::Float(y)) => f64::from_bits(*x) == f64::from_bits(*y),
        (Spec::Str(x), Spec::Str(y)) => x == y,
        _ => false,
    })
}

fn check_one(s: &Spec) -> Result<(), String> {
    let r = catch_unwind(AssertUnwindSafe(|| {
        let mut gc = GC::new();
        let o = build(s, &mut gc);
        let r = read_back(s, o);
        // a second object with the same content must be equal, unless NaN / array
        let r2 = if r.is_ok() {
            let o2 = build(s, &mut gc);
            let res = match spec_eq(s, s) {
                Some(want) => {
                    if (o == o2) != want {
                        Err(format!("value == copy of itself is {}, expected {want}", o == o2))
                    } else {
                        Ok(())
                    }
                }
                None => Ok(()),
            };
            release(o2, &mut gc);
            res
        } else {
            Ok(())
        };
        release(o, &mut gc);
        r.and(r2)
    }));
    match r {
        Ok(r) => r,
        Err(p) => Err(format!("panic: {}", crate::engine::classify_unwind(p).render())),
    }
}

fn viol(driver: &str, class: &str, case: serde_json::Value, expected: &str, observed: String) -> Violation {
    Violation {
        property: "C15".into(),
        driver: driver.into(),
        class: class.into(),
        case,
        expected: expected.into(),
        observed,
    }
}

fn spec_to_json(s: &Spec) -> serde_json::Value {
    match s {
        Spec::Null => json!({"t": "null"}),
        Spec::Bool(b) => json!({"t": "bool", "v": b}),
        Spec::Int(i) => json!({"t": "int", "v": i}),
        Spec::Func(o, c) => json!({"t": "func", "o": o, "c": c}),
        Spec::Float(b) => json!({"t": "float", "bits": format!("{b:#x}")}),
        Spec::Str(x) => json!({"t": "str", "v": x}),
        Spec::Arr(v) => json!({"t": "arr", "v": v.iter().map(spec_to_json).collect::<Vec<_>>()}),
    }
}

fn spec_from_json(v: &serde_json::Value) -> Option<Spec> {
    Some(match v.get("t")?.as_str()? {
        "null" => Spec::Null,
        "bool" => Spec::Bool(v.get("v")?.as_bool()?),
        "int" => Spec::Int(v.get("v")?.as_i64()?),
        "func" => Spec::Func(v.get("o")?.as_u64()? as u32, v.get("c")?.as_u64()? as u16),
        "float" => Spec::Float(u64::from_str_radix(v.get("bits")?.as_str()?.trim_start_matches("0x"), 16).ok()?),
        "str" => Spec::Str(v.get("v")?.as_str()?.to_string()),
        "arr" => Spec::Arr(v.get("v")?.as_array()?.iter().map(spec_from_json).collect::<Option<Vec<_>>>()?),
        _ => return None,
    })
}

/// a == b over two specs, with the oracle; Ok(None) when masked
fn check_pair(a: &Spec, b: &Spec) -> Result<(), String> {
    let want = match spec_eq(a, b) {
        Some(w) => w,
        None => return Ok(()),
    };
    let r = catch_unwind(AssertUnwindSafe(|| {
        let mut gc = GC::new();
        let x = build(a, &mut gc);
        let y = build(b, &mut gc);
        let got = x == y;
        let got2 = y == x;
        release(x, &mut gc);
        release(y, &mut gc);
        (got, got2)
    }));
    match r {
        Ok((g1, g2)) => {
            if g1 != want || g2 != want {
                Err(format!("a == b is {g1}, b == a is {g2}, expected {want}"))
            } else {
                Ok(())
            }
        }
        Err(p) => Err(format!("panic: {}", crate::engine::classify_unwind(p).render())),
    }
}

/// Arrays that share sub-arrays (acyclic): `plan[k]` lists the elements of array k, an element is a scalar text or an earlier
/// array. The array is read back element by element (the very same objects) and as text: a list shows every element in
/// full, also one that occurs more than once.
pub fn shared_arrays_check(plan: &[Vec<SharedItem>]) -> Result<(), String> {
    let r = catch_unwind(AssertUnwindSafe(|| {
        let mut gc = GC::new();
        let mut built: Vec<Object> = Vec::new();
        let mut texts: Vec<String> = Vec::new();
        let mut scalars: Vec<Object> = Vec::new();
        for items in plan {
            let mut objs = Vec::new();
            let mut parts = Vec::new();
            for it in items {
                match it {
                    SharedItem::Int(i) => {
                        objs.push(Object::int(*i as isize));
                        parts.push(i.to_string());
                    }
                    SharedItem::Bool(b) => {
                        objs.push(Object::bool(*b));
                        parts.push(if *b { "ja".to_string() } else { "nee".to_string() });
                    }
                    SharedItem::Eighths(n) => {
                        let f = *n as f64 / 8.0;
                        let o = Object::float(f, &mut gc);
                        scalars.push(o);
                        objs.push(o);
                        parts.push(f.to_string());
                    }
                    SharedItem::Text(t) => {
                        let o = Object::string(t.as_str(), &mut gc);
                        scalars.push(o);
                        objs.push(o);
                        parts.push(t.clone());
                    }
                    SharedItem::Earlier(k) => {
                        let k = *k % built.len().max(1);
                        if built.is_empty() {
                            objs.push(Object::int(0));
                            parts.push("0".into());
                        } else {
                            objs.push(built[k]);
                            parts.push(texts[k].clone());
                        }
                    }
                }
            }
            let want_ptrs: Vec<Object> = objs.clone();
            let o = Object::array(objs, &mut gc);
            let text = format!("[{}]", parts.join(", "));
            // element by element: the same objects, in order
            let got = o.as_vec();
            if got.len() != want_ptrs.len() || got.iter().zip(want_ptrs.iter()).any(|(a, b)| crate::engine::obj_addr(*a) != crate::engine::obj_addr(*b) && a.is_heap_allocated()) {
                return Err(format!("array {} does not hold the objects it was built from", built.len()));
            }
            let shown = format!("{o}");
            if shown != text {
                return Err(format!("array {} reads as `{shown}`, written as `{text}`", built.len()));
            }
            built.push(o);
            texts.push(text);
        }
        // every block once
        for o in built.iter().chain(scalars.iter()) {
            gc.untrace(*o);
        }
        for o in built.iter().chain(scalars.iter()) {
            o.free();
        }
        Ok(())
    }));
    match r {
        Ok(x) => x,
        Err(p) => Err(format!("panic: {}", crate::engine::classify_unwind(p).render())),
    }
}

#[derive(Clone, Debug)]
pub enum SharedItem {
    Int(i64),
    Bool(bool),
    Eighths(i64),
    Text(String),
    Earlier(usize),
}

fn gen_shared_plan(t: &mut Tape) -> Vec<Vec<SharedItem>> {
    let arrays = 1 + t.below(6);
    (0..arrays)
        .map(|k| {
            let n = t.below(5);
            (0..n)
                .map(|_| match t.below(8) {
                    0 => SharedItem::Int(t.range(-99, 99)),
                    1 => SharedItem::Bool(t.maybe(128)),
                    2 => SharedItem::Eighths(t.range(-80, 80)),
                    3 => SharedItem::Text(gen_string(t)),
                    _ if k > 0 => SharedItem::Earlier(t.below(k)),
                    _ => SharedItem::Int(t.range(0, 9)),
                })
                .collect()
        })
        .collect()
}

fn plan_to_json(plan: &[Vec<SharedItem>]) -> serde_json::Value {
    json!(plan
        .iter()
        .map(|a| a
            .iter()
            .map(|i| match i {
                SharedItem::Int(v) => json!({"int": v}),
                SharedItem::Bool(b) => json!({"bool": b}),
                SharedItem::Eighths(n) => json!({"eighths": n}),
                SharedItem::Text(s) => json!({"text": s}),
                SharedItem::Earlier(k) => json!({"earlier": k}),
            })
            .collect::<Vec<_>>())
        .collect::<Vec<_>>())
}

fn plan_from_json(v: &serde_json::Value) -> Option<Vec<Vec<SharedItem>>> {
    v.as_array()?
        .iter()
        .map(|a| {
            a.as_array()?
                .iter()
                .map(|i| {
                    if let Some(x) = i.get("int") {
                        Some(SharedItem::Int(x.as_i64()?))
                    } else if let Some(x) = i.get("bool") {
                        Some(SharedItem::Bool(x.as_bool()?))
                    } else if let Some(x) = i.get("eighths") {
                        Some(SharedItem::Eighths(x.as_i64()?))
                    } else if let Some(x) = i.get("text") {
                        Some(SharedItem::Text(x.as_str()?.to_string()))
                    } else {
                        Some(SharedItem::Earlier(i.get("earlier")?.as_u64()? as usize))
                    }
                })
                .collect::<Option<Vec<_>>>()
        })
        .collect()
}

pub fn replay(case: &serde_json::Value) -> Option<Violation> {
    if let Some(p) = case.get("shared_arrays") {
        let plan = plan_from_json(p)?;
        return shared_arrays_check(&plan).err().map(|m| viol("shared-arrays", "array-readback", case.clone(), "an array reads back as written, element by element and as text", m));
    }
    if let Some(v) = case.get("checked_int").and_then(|x| x.as_i64()) {
        let in_range = v >= lattice::MIN_INT && v <= lattice::MAX_INT;
        let got = catch_unwind(AssertUnwindSafe(|| Object::checked_int(v as isize).map(|o| (o.tag() == Type::Int, o.as_int() as i64))));
        let ok = match &got {
            Ok(Some((is_int, back))) => in_range && *is_int && *back == v,
            Ok(None) => !in_range,
            Err(_) => false,
        };
        return if ok { None } else { Some(viol("checked_int", "checked-int", case.clone(), "exactly the 61-bit range is accepted", format!("{:?}", got.map_err(|_| "panic")))) };
    }
    if let Some(a) = case.get("a") {
        let a = spec_from_json(a)?;
        let b = spec_from_json(case.get("b")?)?;
        return check_pair(&a, &b)
            .err()
            .map(|m| viol("pairs", "eq-mismatch", case.clone(), "a == b iff same type and content", m));
    }
    let s = spec_from_json(case.get("value")?)?;
    check_one(&s)
        .err()
        .map(|m| viol("roundtrip", "readback", case.clone(), "value read back exactly as written", m))
}

pub fn run(ctx: &Ctx) -> Report {
    let mut rep = Report::new(
        "C15",
        "exploration",
        "values built through the public Object constructors: complete lattice of ints, complete (offset,count) boundary grid, \
         tape-generated floats/strings/nested arrays; arrays that share sub-arrays, read back element by element (same objects) and as text (a list shows every element in full, also one that occurs twice); pairwise == over the complete cross product of a 200-value sample. \
         non-trivial = negative or >=2^31 int, non-zero function descriptor, any float, non-ASCII or long string, array holding heap values; distinct by rendering",
    );
    rep.assumptions.push("arrays are only compared with non-arrays (array == array is unimplemented upstream, U11)".into());
    crate::engine::install_panic_hook();
    let lat = lattice::full_lattice();

    // (1) complete int lattice, bools, null
    let mut fixed: Vec<Spec> = vec![Spec::Null, Spec::Bool(true), Spec::Bool(false)];
    fixed.extend(lat.iter().map(|i| Spec::Int(*i)));
    // (2) complete descriptor grid
    for o in OFFSETS {
        for c in COUNTS {
            fixed.push(Spec::Func(o, c));
        }
    }
    for s in &fixed {
        rep.eval();
        if s.nontrivial() {
            rep.nontrivial(&s.render());
        }
        rep.count(&format!("roundtrip:{}", s.type_name()));
        if let Err(m) = check_one(s) {
            rep.violation(viol("roundtrip", "readback", json!({"value": spec_to_json(s)}), "value read back exactly as written", m));
        }
    }
    rep.sample(json!({"fixed_grid": {"ints": lat.len(), "descriptors": OFFSETS.len() * COUNTS.len()}}));

    // (2b) the checked integer constructor: exactly the 61-bit range is accepted, and accepted values read back as written
    let mut candidates: Vec<i64> = lat.clone();
    for k in 59..=63u32 {
        for d in [-2i128, -1, 0, 1, 2] {
            for sign in [1i128, -1] {
                let v = sign * ((1i128 << k) + d);
                if v >= i64::MIN as i128 && v <= i64::MAX as i128 {
                    candidates.push(v as i64);
                }
            }
        }
    }
    candidates.extend([i64::MAX, i64::MIN, i64::MAX - 1, i64::MIN + 1]);
    for v in candidates {
        rep.eval();
        rep.count("checked_int");
        let in_range = v >= lattice::MIN_INT && v <= lattice::MAX_INT;
        let got = catch_unwind(AssertUnwindSafe(|| Object::checked_int(v as isize).map(|o| (o.tag() == Type::Int, o.as_int() as i64))));
        let ok = match &got {
            Ok(Some((is_int, back))) => in_range && *is_int && *back == v,
            Ok(None) => !in_range,
            Err(_) => false,
        };
        if !in_range {
            rep.nontrivial(&format!("checked_int({v})"));
        }
        if !ok {
            rep.violation(viol(
                "checked_int",
                "checked-int",
                json!({"checked_int": v}),
                if in_range { "Some(the same integer)" } else { "None: the value does not fit in 61 bits" },
                format!("{:?}", got.map_err(|_| "panic")),
            ));
        }
    }

    // (3) tape-generated values
    let cases = ctx.pick(400_000u32, 8_000_000u32) / ctx.shards as u32;
    let seed = ctx.seed;
    let lat2 = lat.clone();
    let mut rep = par_shards(ctx.shards, rep, move |shard, r| {
        let lat = lat2.clone();
        let fail = run_tapes(seed.wrapping_mul(1000) + shard as u64, cases, 96, |tape, shrinking| {
            let mut t = Tape::new(tape);
            let s = gen_spec(&mut t, 0, &lat);
            if !shrinking {
                r.eval();
                r.count(&format!("roundtrip:{}", s.type_name()));
                if s.nontrivial() {
                    r.nontrivial(&s.render());
                }
                if r.evaluations % 997 == 1 {
                    r.sample(json!(s.render()));
                }
            }
            check_one(&s)
        });
        if let Some((tape, msg)) = fail {
            let mut t = Tape::new(&tape);
            let s = gen_spec(&mut t, 0, &lat);
            r.violation(viol("roundtrip", "readback", json!({"value": spec_to_json(&s)}), "value read back exactly as written", msg));
        }
    });

    // (3b) arrays that share sub-arrays
    let shared_cases = ctx.pick(60_000u32, 1_000_000u32) / ctx.shards as u32;
    let mut rep = par_shards(ctx.shards, rep, move |shard, r| {
        let fail = run_tapes(seed.wrapping_mul(86_028_121) + shard as u64, shared_cases, 96, |tape, shrinking| {
            let mut t = Tape::new(tape);
            let plan = gen_shared_plan(&mut t);
            if !shrinking {
                r.eval();
                r.count("shared-arrays");
                if plan.iter().any(|a| a.iter().filter(|i| matches!(i, SharedItem::Earlier(_))).count() >= 2) {
                    r.nontrivial(&format!("{plan:?}"));
                }
            }
            shared_arrays_check(&plan)
        });
        if let Some((tape, msg)) = fail {
            let mut t = Tape::new(&tape);
            let plan = gen_shared_plan(&mut t);
            r.violation(viol("shared-arrays", "array-readback", json!({"shared_arrays": plan_to_json(&plan)}), "an array reads back as written, element by element and as text", msg));
        }
    });
    rep.sample(json!({"shared_arrays": "r = [1, 2.5, drie]; [r, r] reads as [[1, 2.5, drie], [1, 2.5, drie]]"}));

    // (4) pairwise over a 200-value sample (complete cross product)
    let mut sample: Vec<Spec> = vec![Spec::Null, Spec::Bool(true), Spec::Bool(false)];
    for i in [0i64, 1, -1, 2, 3, 4, 8, 1 << 16, (1 << 16) | 1, 1 << 32, lattice::MAX_INT, lattice::MIN_INT, -(1 << 16)] {
        sample.push(Spec::Int(i));
    }
    for (o, c) in [(0u32, 0u16), (0, 1), (1, 0), (1, 1), (0, 2), (2, 0), (65_535, 0), (0, 65_535), (65_536, 0), (1, 65_535), (u32::MAX, 65_535), (u32::MAX, 0), (1 << 31, 1)] {
        sample.push(Spec::Func(o, c));
    }
    for f in [0.0f64, -0.0, 1.0, -1.0, 0.5, 2.0, f64::INFINITY, f64::NEG_INFINITY, f64::NAN, f64::MIN_POSITIVE, 5e-324, 1e300, 65536.0] {
        sample.push(Spec::Float(f.to_bits()));
    }
    for s in ["", "a", "b", "ab", "ba", "é", "e", "1", "0", " ", "null", "ja", "a\0", "€"] {
        sample.push(Spec::Str(s.to_string()));
    }
    sample.push(Spec::Arr(vec![]));
    sample.push(Spec::Arr(vec![Spec::Int(1)]));
    sample.push(Spec::Arr(vec![Spec::Arr(vec![]), Spec::Str("a".into())]));
    // fill up to 200 with tape-generated values (seeded)
    {
        let mut extra: Vec<Spec> = Vec::new();
        let mut runner = crate::tape::runner(ctx.seed ^ 0xC15, 1);
        while sample.len() + extra.len() < 200 {
            use proptest::prelude::RngCore;
            let mut bytes = vec![0u8; 64];
            runner.rng().fill_bytes(&mut bytes);
            // deterministic filler derived from the seed only (not an oracle input; the oracle is spec_eq)
            let mut t = Tape::new(&bytes);
            let s = gen_spec(&mut t, 1, &lat);
            if !extra.contains(&s) {
                extra.push(s);
            }
        }
        sample.extend(extra);
    }
    let mut pairs = 0u64;
    let mut equal_pairs = 0u64;
    for a in &sample {
        for b in &sample {
            pairs += 1;
            rep.eval();
            if spec_eq(a, b) == Some(true) {
                equal_pairs += 1;
            }
            if a.type_name() != b.type_name() || spec_eq(a, b) == Some(true) {
                rep.nontrivial(&format!("{} == {}", a.render(), b.render()));
            }
            if let Err(m) = check_pair(a, b) {
                rep.violation(viol(
                    "pairs",
                    "eq-mismatch",
                    json!({"a": spec_to_json(a), "b": spec_to_json(b)}),
                    "a == b iff same type and same content (NaN excepted)",
                    format!("{} vs {}: {m}", a.render(), b.render()),
                ));
            }
        }
    }
    rep.count_n("pairs", pairs);
    rep.count_n("pairs_expected_equal", equal_pairs);
    rep.sample(json!({"pair_sample_size": sample.len(), "example_pair": [sample[5].render(), sample[20].render()]}));
    rep.extra.insert("exhaustive_parts".into(), json!(["int lattice (k<=60)", "descriptor grid 11x6", "200x200 equality matrix"]));
    rep
}
