//! C04 — garbage is reclaimed and a finished run leaves nothing behind.
use crate::engine::*;
use crate::gen::*;
use crate::printer::print_canonical;
use crate::props::c03::{history_driver, ops_from_json, run_history};
use crate::report::*;
use crate::tape::run_tapes;
use serde_json::{json, Value};

type Fail = (String, Value, String, String);

/// the ledger audit of one run (normal end, genuine error, or injected error after `budget` instructions)
fn audit(src: &str, budget: u64) -> (Obs, Option<(String, String)>) {
    let o = run_eval(src, &RunCfg { budget, audit_heap: true });
    let f = if o.outcome.is_crash() {
        Some((format!("crash:{}", crate::diff::crash_class(&o.outcome)), o.render()))
    } else if let Some(e) = o.events.first() {
        let short: String = e.split(|c: char| c.is_ascii_digit()).next().unwrap_or(e).trim().trim_end_matches(" of").to_string();
        Some((format!("event:{short}"), o.render()))
    } else if o.heap.dead_in_result > 0 {
        Some(("result-not-live".into(), format!("{} object(s) of the returned result were already freed", o.heap.dead_in_result)))
    } else if o.heap.leaked > 0 {
        Some(("leak:lost-object".into(), format!("{} of {} allocated object(s) are still allocated after the caller has released the value with Object::free_recursive and the collector is gone (and were not managed by it at the end either)", o.heap.leaked, o.heap.allocated)))
    } else if o.heap.left_managed > 0 {
        Some(("leak:managed-at-destroy".into(), format!("{} of {} allocated object(s) were still managed by the collector when it was destroyed and were not freed", o.heap.left_managed, o.heap.allocated)))
    } else {
        None
    };
    (o, f)
}

/// Heaps that are large in one dimension: tens of thousands of objects alive at a collection, with garbage among them, in
/// lists, in wide arrays, as floats and texts; the ledger must balance as for every other run (every object released
/// exactly once, the value intact). A collection runs at every function return.
fn large_heap_programs() -> Vec<(String, String, i64)> {
    let mut v = Vec::new();
    for n in [1_000i64, 40_000, 70_000] {
        // a chain of [float, rest] pairs (2 n objects), a collection while it is alive, a walk over it, another collection
        v.push((
            format!("chain:{n}"),
            format!("functie f() {{ [1.5, \"afval\"] }} stel l = []; stel i = 0; zolang i < {n} {{ l = [float(i) + 0.5, l]; i = i + 1 }}; f(); stel k = 0; zolang lengte(l) > 0 {{ als l[0] >= 0.0 {{ k = k + 1 }}; l = l[1] }}; f(); k"),
            n,
        ));
        // texts kept in a list that is rebuilt again and again (garbage), then counted
        v.push((
            format!("texts:{n}"),
            format!("functie f(x) {{ string(x) }} stel l = []; stel i = 0; zolang i < {n} {{ l = [string(i), l]; i = i + 1 }}; stel g = f(1); stel k = 0; zolang lengte(l) > 0 {{ k = k + lengte(l[0]) - lengte(l[0]) + 1; l = l[1] }}; f(2); k"),
            n,
        ));
        // everything garbage at once
        v.push((
            format!("all-garbage:{n}"),
            format!("functie f() {{ 0 }} stel l = []; stel i = 0; zolang i < {n} {{ l = [[i], l]; i = i + 1 }}; l = 0; f(); f() + {n}"),
            n,
        ));
    }
    v
}

fn large_heap_family(rep: &mut Report) {
    for (name, src, want) in large_heap_programs() {
        rep.eval();
        rep.count("large-heaps");
        rep.nontrivial(&name);
        let (o, f) = audit(&src, 80_000_000);
        let wrong_value = !matches!(&o.outcome, Outcome::Value(Val::Int(i)) if *i == want) && o.outcome != Outcome::Budget;
        let f = f.or(if wrong_value { Some(("large-heap:wrong-value".to_string(), o.render().chars().take(300).collect())) } else { None });
        if let Some((class, detail)) = f {
            rep.violation(Violation {
                property: "C04".into(),
                driver: "large-heaps".into(),
                class,
                case: json!({"src": src, "family": name}),
                expected: format!("value {want}; every object released exactly once"),
                observed: detail.chars().take(600).collect(),
            });
        }
    }
    rep.sample(json!({"large-heap": large_heap_programs()[1].1}));
}

pub struct ProgStats {
    pub instrs: u64,
    pub allocated: usize,
    pub freed_by_cycles: usize,
    pub abort_points: u64,
    pub abort_points_with_live_objects: u64,
}

/// full run + every abort point
fn check_program(src: &str, known: &[KnownFinding], all_points_limit: u64, excluded: &mut u64) -> Result<Option<ProgStats>, Fail> {
    let tolerate = |class: &str, case: &Value| crate::difftest::known_match(known, "C04", class, case);
    let (full, f) = audit(src, 400_000);
    if full.outcome == Outcome::Budget {
        return Ok(None);
    }
    let case = json!({"src": src});
    if let Some((class, detail)) = f {
        if tolerate(&class, &case) {
            *excluded += 1;
        } else {
            return Err((class, case, "every object released exactly once; nothing unreachable kept after a cycle".into(), detail));
        }
    }
    let n = full.ticks;
    let mut st = ProgStats { instrs: n, allocated: full.heap.allocated, freed_by_cycles: full.heap.freed_by_cycles, abort_points: 0, abort_points_with_live_objects: 0 };
    // abort points: all k when the run is short, otherwise the first 1000 and an even spread of 1000 others
    let ks: Vec<u64> = if n <= all_points_limit {
        (1..n).collect()
    } else {
        let mut v: Vec<u64> = (1..1000.min(n)).collect();
        let step = (n / 1000).max(1);
        let mut k = 1000;
        while k < n {
            v.push(k);
            k += step;
        }
        v
    };
    for k in ks {
        let (o, f) = audit(src, k);
        st.abort_points += 1;
        if o.heap.allocated > 0 {
            st.abort_points_with_live_objects += 1;
        }
        if let Some((class, detail)) = f {
            let case = json!({"src": src, "abort_after": k});
            if tolerate(&class, &case) {
                *excluded += 1;
            } else {
                return Err((format!("abort:{class}"), case, "every object released exactly once on the error path too".into(), detail));
            }
        }
    }
    Ok(Some(st))
}

/// A session on a retained compiler and machine, judged by the ledger: no line meets a released or unknown block, dropping
/// the machine and the compiler releases every block except what the results handed to the caller reach, the caller can
/// release those exactly once, and nothing remains.
pub fn check_session_ledger(lines: &[crate::props::c17::Line]) -> Result<(), Fail> {
    let case = crate::props::c17::session_json(lines);
    let mut s = crate::engine::session_begin();
    let mut bad: Option<Fail> = None;
    for (i, l) in lines.iter().enumerate() {
        let o = s.line(&l.text(), l.cut.unwrap_or(crate::props::c17::BUDGET));
        let heap_event = o.events.iter().find(|e| e.starts_with("heap") || e.starts_with("gc:")).cloned().or(match &o.outcome {
            Outcome::Trap(m) if m.contains("heap") => Some(m.clone()),
            _ => None,
        });
        if let Some(e) = heap_event {
            let short: String = e.split(|c: char| c.is_ascii_digit()).next().unwrap_or(&e).trim().to_string();
            bad = Some((format!("session:{short}"), case.clone(), format!("line {i} only meets blocks that are allocated and not yet released"), o.render()));
            break;
        }
    }
    let (drop_events, unowned, release_events, left) = s.end_audit();
    crate::engine::install_gc_observer();
    if let Some(f) = bad {
        return Err(f);
    }
    if let Some(e) = drop_events.first() {
        return Err(("session:event-while-dropping-the-machine".into(), case, "no block is released twice".into(), e.clone()));
    }
    if unowned > 0 {
        return Err(("session:leak".into(), case, "after the machine and the compiler are gone only the handed-over results are allocated".into(), format!("{unowned} blocks that no result reaches are still allocated")));
    }
    if let Some(e) = release_events.first() {
        return Err(("session:event-while-releasing-results".into(), case, "the caller can release the results exactly once".into(), e.clone()));
    }
    if left > 0 {
        return Err(("session:blocks-left".into(), case, "nothing remains".into(), format!("{left} blocks")));
    }
    Ok(())
}

pub fn replay(case: &Value) -> Option<Violation> {
    if case.get("session").is_some() {
        let lines = crate::props::c17::lines_from_json(case)?;
        return check_session_ledger(&lines).err().map(|f| Violation { property: "C04".into(), driver: "replay".into(), class: f.0, case: case.clone(), expected: f.2, observed: f.3 });
    }
    if let Some(h) = case.get("history") {
        let ops = ops_from_json(h)?;
        return run_history(&ops, true).err().map(|(class, detail)| Violation { property: "C04".into(), driver: "replay".into(), class, case: case.clone(), expected: "the collector agrees with the reachability model".into(), observed: detail });
    }
    let src = case.get("src")?.as_str()?;
    let budget = case.get("abort_after").and_then(|x| x.as_u64()).unwrap_or(400_000);
    let (_, f) = audit(src, budget);
    f.map(|(class, detail)| Violation {
        property: "C04".into(),
        driver: "replay".into(),
        class: if case.get("abort_after").is_some() { format!("abort:{class}") } else { class },
        case: case.clone(),
        expected: "every object released exactly once".into(),
        observed: detail,
    })
}

pub fn run_check(ctx: &Ctx) -> Report {
    let mut rep = Report::new(
        "C04",
        "fault_enumeration",
        "programs of the `alloc` profile; each is run to completion under the shadow heap and then cut short with an injected error after k instructions for EVERY k below the length of the run (runs longer than 3000 instructions: the first 1000 and 1000 evenly spread others). \
         After each run the ledger is audited: the result graph must be live when returned, releasing it (each distinct object once) must leave no live block, no block may be freed twice; at the end of every collection the managed set must contain nothing unreachable. \
         Plus generated sessions (C17's generator) on one retained compiler and machine, with the ledger audited over the whole life of the machine: no line meets a released block, dropping machine and compiler leaves only what the handed-over results reach, the caller releases that exactly once. \
         Plus nine programs with 1 000 ... 140 000 objects alive at a collection (chains of pairs, texts, everything garbage at once) under the same ledger. \
         Plus the collector histories of C03 with the stronger oracle (garbage is actually freed by the cycle). \
         non-trivial = program that allocated >=3 heap objects and whose cycles freed something; abort points with >=1 object allocated are counted; distinct by program text",
    );
    rep.assumptions.push("the injected error takes the same exit path as a run-time type error (hook H2)".into());
    rep.assumptions.push("objects still managed when the collector is destroyed are released by the harness (open known finding F-GC2), so that every other leak still shows".into());
    let cases = ctx.pick(2_500u32, 60_000u32) / ctx.shards as u32;
    let hist = ctx.pick(150_000u32, 4_000_000u32) / ctx.shards as u32;
    let sessions = ctx.pick(40_000u32, 1_000_000u32) / ctx.shards as u32;
    let seed = ctx.seed;
    let shards = ctx.shards;
    let enum_len = ctx.pick(4usize, 5usize);
    let limit = 3000u64;
    crate::engine::note_current("done", "");
    large_heap_family(&mut rep);
    par_shards(ctx.shards, rep, move |shard, r| {
        let known = load_known_findings();
        let profile = Profile::alloc();
        let mut excluded = 0u64;
        let mut last: Option<Fail> = None;
        let fail = run_tapes(seed.wrapping_mul(217_645_177) + shard as u64, cases, 500, |tape, shrinking| {
            let (prog, _) = gen_program(tape, &profile);
            let src = print_canonical(&prog);
            let mut ex = 0u64;
            let res = check_program(&src, &known, limit, &mut ex);
            if !shrinking {
                excluded += ex;
                r.eval();
                if let Ok(Some(st)) = &res {
                    r.evaluations += st.abort_points;
                    r.count_n("abort-points", st.abort_points);
                    r.count_n("abort-points-with-objects-allocated", st.abort_points_with_live_objects);
                    if st.allocated >= 3 && st.freed_by_cycles > 0 {
                        r.nontrivial(&src);
                        if r.nontrivial.len() % 40 == 1 {
                            r.sample(json!({"src": src, "instructions": st.instrs, "allocated": st.allocated, "freed_by_cycles": st.freed_by_cycles, "abort_points": st.abort_points}));
                        }
                    }
                }
            }
            match res {
                Ok(_) => Ok(()),
                Err(f) => {
                    let c = f.0.clone();
                    last = Some(f);
                    Err(c)
                }
            }
        });
        r.count_n("excluded_by_known_finding", excluded);
        if fail.is_some() {
            if let Some(f) = last {
                let src = f.1.get("src").and_then(|s| s.as_str()).unwrap_or("").to_string();
                let mut best = f.clone();
                if let Ok(prog) = crate::dbgparse::parse_source(&src) {
                    let cls = f.0.clone();
                    let mut ex = 0u64;
                    let small = crate::minimize::minimize(&prog, &mut |p| matches!(check_program(&print_canonical(p), &known, 600, &mut ex), Err(g) if g.0 == cls), 400);
                    if let Err(g) = check_program(&print_canonical(&small), &known, limit, &mut ex) {
                        best = g;
                    }
                }
                r.violation(Violation { property: "C04".into(), driver: "alloc-programs".into(), class: best.0, case: best.1, expected: best.2, observed: best.3 });
            }
        }
        history_driver(r, "C04", true, seed.wrapping_mul(236_887_691) + shard as u64, hist, shard, shards, enum_len);
        // sessions on a retained machine: the ledger over the whole life of the machine
        let fail = run_tapes(seed.wrapping_mul(141_650_939) + shard as u64, sessions, 300, |tape, shrinking| {
            let lines = crate::props::c17::gen_session(tape);
            if !shrinking {
                r.eval();
                r.count("sessions");
                r.nontrivial(&format!("session:{lines:?}"));
            }
            check_session_ledger(&lines).map_err(|f| f.0)
        });
        if let Some((tape, _)) = fail {
            let lines = crate::props::c17::gen_session(&tape);
            if let Err(f) = check_session_ledger(&lines) {
                let cls = f.0.clone();
                let small = crate::props::c17::minimize_session(&lines, &mut |l| matches!(check_session_ledger(l), Err(g) if g.0 == cls));
                if let Err(f) = check_session_ledger(&small) {
                    r.violation(Violation { property: "C04".into(), driver: "sessions".into(), class: f.0, case: f.1, expected: f.2, observed: f.3 });
                }
            }
        }
    })
}
