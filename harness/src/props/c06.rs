//! C06 — operators are exact over the whole value range.
use crate::engine::*;
use crate::lattice::*;
use crate::report::*;
use crate::tape::{run_tapes, Tape};
use serde_json::json;

pub const OPS: [&str; 11] = ["+", "-", "*", "/", "%", "<", "<=", ">", ">=", "==", "!="];

#[derive(Clone, Debug, PartialEq)]
pub enum Expect {
    Int(i64),
    Bool(bool),
    Float(u64),
    /// any error kind (U6)
    Error,
    /// value or error, but no crash (U11)
    Masked,
}

impl Expect {
    fn render(&self) -> String {
        match self {
            Expect::Int(i) => format!("int {i}"),
            Expect::Bool(b) => format!("bool {b}"),
            Expect::Float(b) => format!("float {:?}", f64::from_bits(*b)),
            Expect::Error => "an error".into(),
            Expect::Masked => "value or error (unspecified), no crash".into(),
        }
    }
}

pub fn int_oracle(a: i64, op: &str, b: i64) -> Expect {
    let (x, y) = (a as i128, b as i128);
    let arith = |r: Option<i128>| match r {
        Some(r) if in_range(r) => Expect::Int(r as i64),
        _ => Expect::Error,
    };
    match op {
        "+" => arith(Some(x + y)),
        "-" => arith(Some(x - y)),
        "*" => arith(Some(x * y)),
        "/" => arith(if y == 0 { None } else { Some(x / y) }), // i128 division truncates toward zero
        "%" => arith(if y == 0 { None } else { Some(x % y) }), // sign of the dividend
        "<" => Expect::Bool(x < y),
        "<=" => Expect::Bool(x <= y),
        ">" => Expect::Bool(x > y),
        ">=" => Expect::Bool(x >= y),
        "==" => Expect::Bool(x == y),
        "!=" => Expect::Bool(x != y),
        _ => unreachable!(),
    }
}

pub fn float_oracle(a: f64, op: &str, b: f64) -> Expect {
    match op {
        "+" => Expect::Float(fbits(a + b)),
        "-" => Expect::Float(fbits(a - b)),
        "*" => Expect::Float(fbits(a * b)),
        "/" => Expect::Float(fbits(a / b)),
        "%" => Expect::Float(fbits(a % b)),
        "<" => Expect::Bool(a < b),
        "<=" => Expect::Bool(a <= b),
        ">" => Expect::Bool(a > b),
        ">=" => Expect::Bool(a >= b),
        "==" => Expect::Bool(a == b),
        "!=" => Expect::Bool(a != b),
        _ => unreachable!(),
    }
}

pub fn str_oracle(a: &str, op: &str, b: &str) -> Expect {
    // code point order == byte order of UTF-8
    let (x, y): (Vec<char>, Vec<char>) = (a.chars().collect(), b.chars().collect());
    match op {
        "+" | "-" | "*" | "/" | "%" => Expect::Error,
        "<" => Expect::Bool(x < y),
        "<=" => Expect::Bool(x <= y),
        ">" => Expect::Bool(x > y),
        ">=" => Expect::Bool(x >= y),
        "==" => Expect::Bool(x == y),
        "!=" => Expect::Bool(x != y),
        _ => unreachable!(),
    }
}

/// an integer written as an expression that needs no negative literal
pub fn int_text(v: i64) -> String {
    if v >= 0 {
        format!("{v}")
    } else if v == MIN_INT {
        format!("(-{MAX_INT} - 1)")
    } else {
        format!("(-{})", -(v as i128))
    }
}

/// a float written as an expression
pub fn float_text(f: f64) -> String {
    if f.is_nan() {
        "float(\"NaN\")".into()
    } else if f.is_infinite() {
        if f > 0.0 {
            "float(\"inf\")".into()
        } else {
            "float(\"-inf\")".into()
        }
    } else {
        let mut s = format!("{}", f.abs());
        if !s.contains('.') {
            s.push_str(".0");
        }
        if f.is_sign_negative() {
            format!("(-{s})")
        } else {
            s
        }
    }
}

pub fn str_text(s: &str) -> String {
    let mut o = String::from("\"");
    for c in s.chars() {
        match c {
            '"' => o.push_str("\\\""),
            '\\' => o.push_str("\\\\"),
            '\n' => o.push_str("\\n"),
            '\t' => o.push_str("\\t"),
            c => o.push(c),
        }
    }
    o.push('"');
    o
}

/// the three syntactic forms of `a op b`
pub fn int_form(form: usize, a: i64, op: &str, b: i64) -> String {
    match form {
        0 => format!("{} {op} {}", int_text(a), int_text(b)),
        1 => format!("functie f(x) {{ x {op} {} }} f({})", int_text(b), int_text(a)),
        _ => format!("functie f(x) {{ {} {op} x }} f({})", int_text(a), int_text(b)),
    }
}

fn judge(exp: &Expect, obs: &Obs) -> Option<&'static str> {
    if !obs.events.is_empty() {
        return Some("hook-event");
    }
    match (&obs.outcome, exp) {
        (Outcome::Panic(_), _) | (Outcome::Trap(_), _) => Some("crash"),
        (Outcome::Budget, _) => Some("budget"),
        (_, Expect::Masked) => None,
        (Outcome::Error(_), Expect::Error) => None,
        (Outcome::Error(_), _) => Some("error-instead-of-value"),
        (Outcome::Value(_), Expect::Error) => Some("value-instead-of-error"),
        (Outcome::Value(Val::Int(i)), Expect::Int(j)) if i == j => None,
        (Outcome::Value(Val::Bool(i)), Expect::Bool(j)) if i == j => None,
        (Outcome::Value(Val::Float(i)), Expect::Float(j)) if i == j => None,
        (Outcome::Value(_), _) => Some("wrong-value"),
    }
}

fn check_src(r: &mut Report, driver: &str, family: &str, op: &str, src: &str, exp: &Expect) {
    r.eval();
    let obs = run_eval(src, &RunCfg { budget: 10_000, audit_heap: false });
    if let Some(kind) = judge(exp, &obs) {
        r.violation(Violation {
            property: "C06".into(),
            driver: driver.into(),
            class: format!("{family}:{}:{kind}", opname(op)),
            case: json!({"src": src, "expect": expect_json(exp)}),
            expected: exp.render(),
            observed: obs.render(),
        });
    }
}

fn opname(op: &str) -> &'static str {
    match op {
        "+" => "add",
        "-" => "sub",
        "*" => "mul",
        "/" => "div",
        "%" => "rem",
        "<" => "lt",
        "<=" => "lte",
        ">" => "gt",
        ">=" => "gte",
        "==" => "eq",
        "neg" => "neg",
        _ => "neq",
    }
}

fn expect_json(e: &Expect) -> serde_json::Value {
    match e {
        Expect::Int(i) => json!({"int": i}),
        Expect::Bool(b) => json!({"bool": b}),
        Expect::Float(b) => json!({"float_bits": format!("{b:#x}")}),
        Expect::Error => json!("error"),
        Expect::Masked => json!("masked"),
    }
}

fn expect_from_json(v: &serde_json::Value) -> Option<Expect> {
    if let Some(s) = v.as_str() {
        return Some(if s == "error" { Expect::Error } else { Expect::Masked });
    }
    if let Some(i) = v.get("int") {
        return Some(Expect::Int(i.as_i64()?));
    }
    if let Some(b) = v.get("bool") {
        return Some(Expect::Bool(b.as_bool()?));
    }
    let b = v.get("float_bits")?.as_str()?;
    Some(Expect::Float(u64::from_str_radix(b.trim_start_matches("0x"), 16).ok()?))
}

pub fn replay(case: &serde_json::Value) -> Option<Violation> {
    let src = case.get("src")?.as_str()?;
    let exp = expect_from_json(case.get("expect")?)?;
    let mut r = Report::new("C06", "exploration", "");
    check_src(&mut r, "replay", "replay", "+", src, &exp);
    r.violations.pop()
}

fn int_nontrivial(a: i64, b: i64, e: &Expect) -> bool {
    a < 0
        || b < 0
        || a.unsigned_abs() >= 1 << 31
        || b.unsigned_abs() >= 1 << 31
        || matches!(e, Expect::Error)
        || matches!(e, Expect::Int(r) if *r >= MAX_INT - 2 || *r <= MIN_INT + 2)
}

const CROSS: [(&str, &str); 7] = [
    ("null", "stel n = als nee { 1 }"),
    ("bool", "stel b = ja"),
    ("int", "stel i = 3"),
    ("float", "stel f = 1.5"),
    ("string", "stel s = \"a\""),
    ("array", "stel a = [1]"),
    ("function", "stel g = functie() { 1 }"),
];
const CROSS_VAR: [&str; 7] = ["n", "b", "i", "f", "s", "a", "g"];
/// the same values as literals (null and functions have no literal that denotes the same value twice)
const CROSS_LIT: [Option<&str>; 7] = [None, Some("ja"), Some("3"), Some("1.5"), Some("\"a\""), Some("[1]"), None];

/// the syntactic forms of `L op R` for operands of the cross product: where the operands live decides which instruction
/// the compiler picks (generic, or fused with a local and a literal)
fn cross_forms(l: usize, op: &str, r: usize) -> Vec<(&'static str, String)> {
    let decls: String = CROSS.iter().map(|c| format!("{}; ", c.1)).collect();
    let (lv, rv) = (CROSS_VAR[l], CROSS_VAR[r]);
    let mut v = vec![
        ("globals", format!("{decls}{lv} {op} {rv}")),
        ("parameters", format!("{decls}functie t(l, r) {{ l {op} r }} t({lv}, {rv})")),
        ("locals", format!("functie t() {{ {decls}{lv} {op} {rv} }} t()")),
    ];
    if let Some(rl) = CROSS_LIT[r] {
        v.push(("global-literal", format!("{decls}{lv} {op} {rl}")));
        v.push(("parameter-literal", format!("{decls}functie t(l) {{ l {op} {rl} }} t({lv})")));
        v.push(("local-literal", format!("functie t() {{ {decls}{lv} {op} {rl} }} t()")));
    }
    if let Some(ll) = CROSS_LIT[l] {
        v.push(("literal-global", format!("{decls}{ll} {op} {rv}")));
        v.push(("literal-parameter", format!("{decls}functie t(r) {{ {ll} {op} r }} t({rv})")));
        v.push(("literal-local", format!("functie t() {{ {decls}{ll} {op} {rv} }} t()")));
    }
    // the neutral elements 0 and 1 as literals (x + 0, 1 * x, x / 1 ... are what a compiler is tempted to simplify): only where
    // the other operand is not an int, so that the expectation (an error) does not depend on the value
    if CROSS[r].0 == "int" && CROSS[l].0 != "int" {
        for lit in ["0", "1"] {
            v.push(("parameter-neutral-literal", format!("{decls}functie t(l) {{ l {op} {lit} }} t({lv})")));
            v.push(("local-neutral-literal", format!("functie t() {{ {decls}{lv} {op} {lit} }} t()")));
            v.push(("global-neutral-literal", format!("{decls}{lv} {op} {lit}")));
        }
    }
    if CROSS[l].0 == "int" && CROSS[r].0 != "int" {
        for lit in ["0", "1"] {
            v.push(("neutral-literal-parameter", format!("{decls}functie t(r) {{ {lit} {op} r }} t({rv})")));
            v.push(("neutral-literal-local", format!("functie t() {{ {decls}{lit} {op} {rv} }} t()")));
        }
    }
    if let (Some(ll), Some(rl)) = (CROSS_LIT[l], CROSS_LIT[r]) {
        v.push(("literals", format!("{ll} {op} {rl}")));
    }
    v
}

fn cross_oracle(l: usize, op: &str, r: usize) -> Expect {
    let arith = matches!(op, "+" | "-" | "*" | "/" | "%");
    let order = matches!(op, "<" | "<=" | ">" | ">=");
    if l != r {
        return Expect::Error;
    }
    match CROSS[l].0 {
        "int" => int_oracle(3, op, 3),
        "float" => float_oracle(1.5, op, 1.5),
        "string" => str_oracle("a", op, "a"),
        "array" => {
            if arith {
                Expect::Error
            } else {
                // comparison of arrays is unsupported: an error
                Expect::Error
            }
        }
        "null" | "bool" | "function" => {
            if arith {
                Expect::Error
            } else if order {
                Expect::Masked // U11
            } else {
                // identical value compared with itself
                Expect::Bool(op == "==")
            }
        }
        _ => unreachable!(),
    }
}

const STR_ALPHA: [&str; 10] = ["a", "b", "A", "0", " ", "é", "z", "€", "𝄞", "\""];

pub fn run(ctx: &Ctx) -> Report {
    let fast_profile = !cfg!(debug_assertions);
    let mut rep = Report::new(
        "C06",
        "exploration",
        "all pairs of the integer boundary lattice x 11 operators x 3 syntactic forms (literal op literal; variable op literal inside a function; \
         literal op variable inside a function), and unary minus over the lattice (literal, parameter, global, applied twice), checked against i128 arithmetic; plus tape-generated 61-bit pairs, float pairs (IEEE host oracle, bit comparison), \
         string pairs (code point order) and the complete 7x7 type cross product. non-trivial = a negative or >=2^31 operand, a result within 2 of a range end, \
         an expected error, any float/string/cross-type case; distinct by source text",
    );
    rep.assumptions.push("U6: the kind of error for zero divisors and out-of-range results is not fixed; any error kind is accepted".into());
    rep.assumptions.push("U11: ordering of null/bool/function values is unspecified (value masked, crash still a violation)".into());
    // the complete lattice is cheap enough for both tiers; the tiers differ in the number of generated cases
    let lat = full_lattice();
    rep.exhaustive = true;
    rep.extra.insert("lattice_size".into(), json!(lat.len()));
    rep.extra.insert("profile".into(), json!(if fast_profile { "fast" } else { "checked" }));
    let shards = ctx.shards;
    let seed = ctx.seed;
    let tier = ctx.tier;
    let lat2 = lat.clone();
    let mut rep = par_shards(shards, rep, move |shard, r| {
        // (1) complete lattice, split by the index of the left operand
        for (i, a) in lat2.iter().enumerate() {
            if i % shards != shard {
                continue;
            }
            for b in lat2.iter() {
                for op in OPS {
                    let e = int_oracle(*a, op, *b);
                    for form in 0..3 {
                        let src = int_form(form, *a, op, *b);
                        if int_nontrivial(*a, *b, &e) {
                            r.nontrivial(&src);
                        }
                        r.count(&format!("int-form{form}"));
                        check_src(r, "lattice", &format!("int-form{form}"), op, &src, &e);
                    }
                }
            }
        }
        // (1b) unary minus over the complete lattice, in three forms (the range is not symmetric: -MIN does not exist)
        for (i, a) in lat2.iter().enumerate() {
            if i % shards != shard {
                continue;
            }
            let e = int_oracle(0, "-", *a);
            for (form, src) in [
                ("literal", format!("-({})", int_text(*a))),
                ("parameter", format!("functie f(x) {{ -x }} f({})", int_text(*a))),
                ("global", format!("stel x = {}; -x", int_text(*a))),
                ("twice", format!("functie f(x) {{ -(-x) }} f({})", int_text(*a))),
            ] {
                let e = if form == "twice" {
                    // -(-x) is x, unless the inner negation already leaves the range
                    match &e {
                        Expect::Error => Expect::Error,
                        _ => Expect::Int(*a),
                    }
                } else {
                    e.clone()
                };
                r.nontrivial(&src);
                r.count("negate");
                check_src(r, "lattice", &format!("negate:{form}"), "neg", &src, &e);
            }
        }
        if shard == 0 {
            r.sample(json!({"src": int_form(1, -7, "%", 2), "expect": int_oracle(-7, "%", 2).render()}));
            r.sample(json!({"src": int_form(2, MAX_INT, "+", 1), "expect": int_oracle(MAX_INT, "+", 1).render()}));
            r.sample(json!({"src": int_form(0, MIN_INT, "/", -1), "expect": int_oracle(MIN_INT, "/", -1).render()}));
        }
        // (2) tape-generated cases
        let cases = if tier == Tier::Quick { 200_000u32 } else { 8_000_000 } / shards as u32;
        let fail = run_tapes(seed.wrapping_mul(977) + shard as u64, cases, 64, |tape, shrinking| {
            let mut t = Tape::new(tape);
            let (family, op, src, e) = gen_case(&mut t);
            if !shrinking {
                r.eval();
                r.count(&family);
                r.nontrivial(&src);
                if r.evaluations % 4001 == 7 {
                    r.sample(json!({"src": src, "expect": e.render()}));
                }
            }
            let obs = run_eval(&src, &RunCfg { budget: 10_000, audit_heap: false });
            match judge(&e, &obs) {
                None => Ok(()),
                Some(kind) => {
                    let class = format!("{family}:{}:{kind}", opname(&op));
                    Err(class)
                }
            }
        });
        if let Some((tape, _)) = fail {
            let mut t = Tape::new(&tape);
            let (family, op, src, e) = gen_case(&mut t);
            let obs = run_eval(&src, &RunCfg { budget: 10_000, audit_heap: false });
            if let Some(kind) = judge(&e, &obs) {
                r.violation(Violation {
                    property: "C06".into(),
                    driver: "random".into(),
                    class: format!("{family}:{}:{kind}", opname(&op)),
                    case: json!({"src": src, "expect": expect_json(&e)}),
                    expected: e.render(),
                    observed: obs.render(),
                });
            }
        }
    });

    // (3) complete type cross product
    let decls: String = CROSS.iter().map(|c| format!("{}; ", c.1)).collect();
    for l in 0..7 {
        for rr in 0..7 {
            for op in OPS {
                let e = cross_oracle(l, op, rr);
                for (form, src) in cross_forms(l, op, rr) {
                    rep.nontrivial(&src);
                    rep.count("cross-type");
                    rep.count(&format!("cross-form:{form}"));
                    check_src(&mut rep, "cross", &format!("cross:{}-{}:{form}", CROSS[l].0, CROSS[rr].0), op, &src, &e);
                }
            }
        }
    }
    // (4) both operands are the SAME object (one variable, an alias, one array element read twice): IEEE comparison of a NaN
    //     with itself, identity shortcuts
    let specials: [(&str, f64); 7] = [("float(\"NaN\")", f64::NAN), ("(0.0 / 0.0)", f64::NAN), ("float(\"inf\")", f64::INFINITY), ("(float(\"inf\") - float(\"inf\"))", f64::NAN), ("0.0", 0.0), ("(-0.0)", -0.0), ("1.5", 1.5)];
    for (text, v) in specials {
        // `0.0 / 0.0` is only used if the implementation agrees that it is a NaN-valued expression (float division by zero is not an error)
        for op in OPS {
            let e = float_oracle(v, op, v);
            for (form, src) in [
                ("same-global", format!("stel x = {text}; x {op} x")),
                ("same-parameter", format!("functie t(x) {{ x {op} x }} t({text})")),
                ("same-local", format!("functie t() {{ stel x = {text}; x {op} x }} t()")),
                ("alias", format!("stel x = {text}; stel y = x; x {op} y")),
                ("two-parameters-one-object", format!("functie t(x, y) {{ x {op} y }} stel v = {text}; t(v, v)")),
                ("array-element-twice", format!("stel r = [{text}]; r[0] {op} r[0]")),
            ] {
                rep.nontrivial(&src);
                rep.count("same-object");
                check_src(&mut rep, "same-object", &format!("same-object:{form}"), op, &src, &e);
            }
        }
    }
    for text in ["\"\"", "\"a\"", "\"é€\""] {
        for op in OPS {
            let e = str_oracle("a", op, "a");
            for (form, src) in [
                ("same-global", format!("stel x = {text}; x {op} x")),
                ("same-parameter", format!("functie t(x) {{ x {op} x }} t({text})")),
                ("alias", format!("stel x = {text}; stel y = x; x {op} y")),
            ] {
                rep.nontrivial(&src);
                rep.count("same-object");
                check_src(&mut rep, "same-object", &format!("same-object-string:{form}"), op, &src, &e);
            }
        }
    }
    rep.sample(json!({"src": format!("{decls}s < a"), "expect": "an error"}));
    if !fast_profile && !ctx.inner && std::env::var("NLV_NO_INNER").is_err() {
        // the same exploration under the optimised profile without overflow checks (what `cargo build --release` gives a user)
        crate::report::run_inner(ctx, "fast", "C06", &mut rep);
    }
    rep
}

/// random case: (family, op, source, expectation)
fn gen_case(t: &mut Tape) -> (String, String, String, Expect) {
    let op = t.pick(&OPS).to_string();
    match t.below(3) {
        0 => {
            // random 61-bit pair, sometimes near each other / near a power of two
            let a = (t.u64() as i64) >> (3 + t.below(58));
            let b = match t.below(4) {
                0 => a.wrapping_add(t.range(-2, 2)).clamp(MIN_INT, MAX_INT),
                1 => t.range(-3, 3),
                _ => (t.u64() as i64) >> (3 + t.below(58)),
            };
            let form = t.below(3);
            let e = int_oracle(a, &op, b);
            (format!("int-form{form}"), op.clone(), int_form(form, a, &op, b), e)
        }
        1 => {
            let a = gen_float(t);
            let b = if t.maybe(40) { a } else { gen_float(t) };
            let e = float_oracle(a, &op, b);
            let src = if t.maybe(128) {
                format!("{} {op} {}", float_text(a), float_text(b))
            } else {
                format!("functie f(x, y) {{ x {op} y }} f({}, {})", float_text(a), float_text(b))
            };
            ("float".into(), op.clone(), src, e)
        }
        _ => {
            let a = gen_str(t);
            let b = if t.maybe(40) {
                a.clone()
            } else if t.maybe(60) {
                format!("{a}{}", t.pick(&STR_ALPHA))
            } else {
                gen_str(t)
            };
            let e = str_oracle(&a, &op, &b);
            // the two literals are bound to variables so that equal texts are distinct uses
            let src = format!("stel p = {}; stel q = {}; p {op} q", str_text(&a), str_text(&b));
            ("string".into(), op.clone(), src, e)
        }
    }
}

fn gen_float(t: &mut Tape) -> f64 {
    match t.below(10) {
        0 => 0.0,
        1 => -0.0,
        2 => f64::INFINITY,
        3 => f64::NEG_INFINITY,
        4 => f64::NAN,
        5 => f64::from_bits(t.u64() & 0x000f_ffff_ffff_ffff), // subnormal
        6 => t.range(-64, 64) as f64 / 4.0,
        7 => t.range(-1_000_000, 1_000_000) as f64,
        _ => {
            let f = f64::from_bits(t.u64());
            if f.is_nan() {
                f64::NAN
            } else {
                f
            }
        }
    }
}

fn gen_str(t: &mut Tape) -> String {
    let n = t.below(5);
    (0..n).map(|_| *t.pick(&STR_ALPHA)).collect()
}
