//! C13 — arrays and strings: shared by reference, indexed exactly, measured in characters.
use crate::ast::*;
use crate::diff::*;
use crate::engine::*;
use crate::printer::print_canonical;
use crate::refint::*;
use crate::report::*;
use crate::tape::{run_tapes, Tape};
use serde_json::{json, Value};

const CHARS: [&str; 8] = ["a", "b", "é", "ß", "€", "𝄞", " ", "z"];
const VARS: [&str; 4] = ["a0", "a1", "a2", "a3"];

fn null_expr() -> Expr {
    iff(boolean(false), vec![es(int(1))], None)
}

/// one value of each of the seven types
fn typed_value(k: usize) -> Expr {
    match k % 7 {
        0 => int(1),
        1 => boolean(true),
        2 => float(1.5),
        3 => string("x"),
        4 => array(vec![int(9)]),
        5 => ident("zet"),
        _ => null_expr(),
    }
}

fn str_of(t: &mut Tape, len: usize) -> String {
    (0..len).map(|_| t.pick_str(&CHARS)).collect()
}

fn prelude() -> BlockStmt {
    // a0..a3 first (so that they are the first four globals), then the helpers
    vec![
        let_("a0", int(0)),
        let_("a1", int(0)),
        let_("a2", int(0)),
        let_("a3", int(0)),
        let_("r", int(0)),
        es(func("zet", &["x", "k", "w"], vec![es(assign(index(ident("x"), ident("k")), ident("w"))), es(ident("x"))])),
        es(func("lees", &["x", "k"], vec![es(index(ident("x"), ident("k")))])),
        // measurements of a value that must agree with its content whatever happened to it before:
        // [length, last character by positive index, last by -1, first by 0, first by -length]
        es(func(
            "maat",
            &["x"],
            vec![
                es(iff(
                    infix(calln("type", vec![ident("x")]), Operator::Eq, string("string")),
                    vec![
                        es(iff(
                            infix(calln("lengte", vec![ident("x")]), Operator::Gt, int(0)),
                            vec![Stmt::Return(array(vec![
                                calln("lengte", vec![ident("x")]),
                                index(ident("x"), infix(calln("lengte", vec![ident("x")]), Operator::Subtract, int(1))),
                                index(ident("x"), neg(int(1))),
                                index(ident("x"), int(0)),
                                index(ident("x"), neg(calln("lengte", vec![ident("x")]))),
                            ]))],
                            None,
                        )),
                        Stmt::Return(array(vec![int(0)])),
                    ],
                    None,
                )),
                es(array(vec![neg(int(1))])),
            ],
        )),
        // literals that are evaluated once per call: every call must hand out a value of its own, whatever happened to the
        // earlier ones (the text through a builtin that returns its argument, the lists with literal elements only)
        es(func("tekst", &[], vec![es(string("abéz€"))])),
        es(func("vers", &[], vec![es(calln("string", vec![string("abéz€")]))])),
        es(func("rij", &[], vec![es(array(vec![int(1), int(2), int(3)]))])),
        es(func("tabel", &[], vec![es(array(vec![array(vec![int(0), int(0)]), array(vec![float(0.5)]), array(vec![string("k")])]))])),
    ]
}

fn collector() -> Stmt {
    es(array(vec![
        ident("a0"),
        ident("a1"),
        ident("a2"),
        ident("a3"),
        ident("r"),
        array(vec![calln("maat", vec![ident("a0")]), calln("maat", vec![ident("a1")]), calln("maat", vec![ident("a2")]), calln("maat", vec![ident("a3")])]),
    ]))
}

/// the measurements in the result must agree with the contents in the same result (implementation against itself)
fn measurements_consistent(v: &Val) -> Result<(), String> {
    let items = match v {
        Val::Arr(_, items) if items.len() == 6 => items,
        _ => return Ok(()),
    };
    let ms = match &items[5] {
        Val::Arr(_, m) => m,
        _ => return Ok(()),
    };
    // a variable may alias an earlier one: then it appears as a back reference and is measured through the first occurrence
    for (k, m) in ms.iter().enumerate().take(4) {
        if let (Val::Str(s), Val::Arr(_, m)) = (&items[k], m) {
            let chars: Vec<char> = s.chars().collect();
            let want: Vec<Val> = if chars.is_empty() {
                vec![Val::Int(0)]
            } else {
                let (first, last) = (chars[0].to_string(), chars[chars.len() - 1].to_string());
                vec![Val::Int(chars.len() as i64), Val::Str(last.clone()), Val::Str(last), Val::Str(first.clone()), Val::Str(first)]
            };
            if *m != want {
                return Err(format!("a{k} is {:?} but its measurements are {}", s, Val::Arr(0, m.clone()).render()));
            }
        }
    }
    Ok(())
}

#[derive(Clone, Debug)]
struct Seq {
    ops: BlockStmt,
}

fn gen_value(t: &mut Tape, depth: usize) -> Expr {
    match t.below(9) {
        0 | 1 => int_expr(t.range(-5, 99)),
        2 => string(&{
            let n = t.below(4);
            str_of(t, n)
        }),
        3 => boolean(t.maybe(128)),
        4 => float(t.range(0, 40) as f64 / 4.0),
        5 if depth > 0 => {
            let n = t.below(4);
            array((0..n).map(|_| gen_value(t, depth - 1)).collect())
        }
        6 => ident(t.pick_str(&VARS)),
        7 => null_expr(),
        _ => int(t.range(0, 6)),
    }
}

#[derive(Clone, Copy, Debug, PartialEq)]
enum Kind {
    Arr(usize),
    Str(usize),
    Other,
}

/// an index for a sequence of length n: mostly valid (negative ones included), sometimes just outside, rarely ill-typed
fn gen_index(t: &mut Tape, n: usize) -> Expr {
    match t.below(16) {
        0 => typed_value(t.below(7)),
        1 | 2 => int_expr(t.range(-(n as i64) - 2, n as i64 + 2)),
        _ if n > 0 => int_expr(t.range(-(n as i64), n as i64 - 1)),
        _ => int_expr(t.range(-2, 2)),
    }
}

fn len_of(k: Kind) -> usize {
    match k {
        Kind::Arr(n) | Kind::Str(n) => n,
        Kind::Other => 0,
    }
}

fn gen_op(t: &mut Tape, kinds: &mut [Kind; 4]) -> Stmt {
    let vi = t.below(4);
    let v = VARS[vi];
    let k = kinds[vi];
    match t.below(13) {
        0 | 1 => {
            // new array literal
            let n = t.below(7);
            kinds[vi] = Kind::Arr(n);
            es(assign(ident(v), array((0..n).map(|_| gen_value(t, 1)).collect())))
        }
        2 | 3 => {
            match t.below(8) {
                0 => {
                    kinds[vi] = Kind::Str(5);
                    return es(assign(ident(v), calln("tekst", vec![])));
                }
                1 => {
                    kinds[vi] = Kind::Str(5);
                    return es(assign(ident(v), calln("vers", vec![])));
                }
                2 => {
                    kinds[vi] = Kind::Arr(3);
                    return es(assign(ident(v), calln(if t.maybe(128) { "rij" } else { "tabel" }, vec![])));
                }
                _ => {}
            }
            let n = t.below(7);
            kinds[vi] = Kind::Str(n);
            let lit = string(&str_of(t, n));
            // sometimes through a builtin that returns its argument
            es(assign(ident(v), if t.maybe(80) { calln("string", vec![lit]) } else { lit }))
        }
        4 => {
            let wi = t.below(4);
            kinds[vi] = kinds[wi];
            if matches!(kinds[wi], Kind::Str(_)) && t.maybe(100) {
                // an alias through string()
                return es(assign(ident(v), calln("string", vec![ident(VARS[wi])])));
            }
            es(assign(ident(v), ident(VARS[wi])))
        }
        5 => es(assign(ident("r"), index(ident(v), gen_index(t, len_of(k))))),
        6 | 7 => {
            let i = gen_index(t, len_of(k));
            let val = if matches!(k, Kind::Str(_)) && t.maybe(25) {
                // U21: a replacement that is not one character long (the value is then not compared, the measurements still are)
                let n = *t.pick(&[0usize, 2, 3]);
                string(&str_of(t, n))
            } else if matches!(k, Kind::Str(_)) && t.maybe(230) || t.maybe(40) {
                string(t.pick_str(&CHARS))
            } else {
                gen_value(t, 1)
            };
            es(assign(index(ident(v), i), val))
        }
        8 => es(assign(ident("r"), calln("lengte", vec![ident(v)]))),
        9 => {
            let i = gen_index(t, len_of(k));
            let val = if matches!(k, Kind::Str(_)) && t.maybe(230) || t.maybe(40) { string(t.pick_str(&CHARS)) } else { gen_value(t, 1) };
            es(assign(ident("r"), calln("zet", vec![ident(v), i, val])))
        }
        10 => {
            let wi = t.below(4);
            kinds[vi] = Kind::Arr(2);
            es(assign(ident(v), array(vec![ident(VARS[wi]), ident(VARS[wi])])))
        }
        11 => {
            // read back through a temporary
            let i = gen_index(t, len_of(k));
            let j = gen_index(t, 2);
            if matches!(k, Kind::Str(_)) && t.maybe(110) {
                // an extracted character is a text of its own: changing it in place changes neither the text it came from nor
                // what the same position (or the same character anywhere else) yields afterwards
                let ch = string(t.pick_str(&["xyz", "é", "", "q"]));
                return Stmt::Block(vec![
                    let_("tmp", index(ident(v), i.clone())),
                    es(assign(index(ident("tmp"), int(0)), ch)),
                    es(assign(ident("r"), array(vec![ident("tmp"), index(ident(v), i), index(string("abcabc"), int(0)), calln("lengte", vec![ident(v)])]))),
                ]);
            }
            Stmt::Block(vec![let_("tmp", index(ident(v), i)), es(assign(ident("r"), calln("lees", vec![ident("tmp"), j])))])
        }
        _ => {
            if t.maybe(100) {
                // the value as text: a list shows every element in full, also a list that occurs in it more than once
                // (a null or a function inside makes the text unspecified, U12: such sequences are not judged)
                return es(calln("print", vec![string("{}"), ident(v)]));
            }
            es(calln("print", vec![string("{} {}"), calln("lengte", vec![ident(v)]), calln("type", vec![ident(v)])]))
        }
    }
}

fn gen_seq(tape: &[u8]) -> Seq {
    let mut t = Tape::new(tape);
    let mut kinds = [Kind::Other; 4];
    // the four variables start as two arrays and two strings
    let mut ops: BlockStmt = Vec::new();
    for vi in 0..4 {
        let n = t.below(7);
        if vi % 2 == 0 {
            kinds[vi] = Kind::Arr(n);
            ops.push(es(assign(ident(VARS[vi]), array((0..n).map(|_| gen_value(&mut t, 1)).collect()))));
        } else {
            kinds[vi] = Kind::Str(n);
            ops.push(es(assign(ident(VARS[vi]), string(&str_of(&mut t, n)))));
        }
    }
    let n = 1 + t.below(14);
    for _ in 0..n {
        ops.push(gen_op(&mut t, &mut kinds));
    }
    Seq { ops }
}

fn program_of(ops: &[Stmt]) -> BlockStmt {
    let mut p = prelude();
    p.extend(ops.iter().cloned());
    p.push(collector());
    p
}

type Fail = (String, Value, String, String);

/// differential check of the whole program, plus - when it ends in an error - the state at the moment of the error
fn check_seq(ops: &[Stmt], stats: Option<&mut RefObs>) -> Result<Option<RefObs>, Fail> {
    let prog = program_of(ops);
    let src = print_canonical(&prog);
    let r = run_reference(&prog, REF_BUDGET);
    if let Some(s) = stats {
        *s = r.clone();
    }
    let (o, snap) = run_eval_snapshot(&src, &RunCfg { budget: VM_BUDGET, audit_heap: true }, 5);
    if let Outcome::Value(v) = &o.outcome {
        if let Err(m) = measurements_consistent(v) {
            return Err(("measurements-disagree-with-content".into(), json!({"src": src}), "lengte and the first / last character agree with the text itself".into(), m));
        }
    }
    match compare(&r, &o) {
        Verdict::Agree => {}
        Verdict::Discard(_) => return Ok(None),
        Verdict::Violation { class, expected, observed } => return Err((class, json!({"src": src}), expected, observed)),
    }
    if let RefOutcome::Error(_) = r.outcome {
        // which operation failed? the longest prefix the reference completes
        let mut k = 0;
        while k < ops.len() {
            let p = program_of(&ops[..=k]);
            if matches!(run_reference(&p, REF_BUDGET).outcome, RefOutcome::Error(_)) {
                break;
            }
            k += 1;
        }
        let before = program_of(&ops[..k]);
        let rb = run_reference(&before, REF_BUDGET);
        if let (RefOutcome::Value(Val::Arr(_, want)), Some(got)) = (&rb.outcome, &snap) {
            // compare a0..a3 and r as one graph (the measurements at the end of the collector are not part of the state)
            let got_v = Val::Arr(0, renumber(got));
            let want_v = Val::Arr(0, want.iter().take(5).cloned().collect());
            if !want_v.agrees(&got_v) {
                return Err((
                    "failed-operation-changed-state".into(),
                    json!({"src": src, "src_before": print_canonical(&before)}),
                    format!("state before the failing operation: {}", want_v.render()),
                    format!("state when the run ended: {}", got_v.render()),
                ));
            }
        }
    }
    Ok(Some(r))
}

/// the snapshot walker numbers arrays from 0; the reference numbers the collector array 0 and its contents from 1
fn renumber(vals: &[Val]) -> Vec<Val> {
    fn bump(v: &Val) -> Val {
        match v {
            Val::Arr(id, items) => Val::Arr(id + 1, items.iter().map(bump).collect()),
            Val::Ref(id) => Val::Ref(id + 1),
            other => other.clone(),
        }
    }
    vals.iter().map(bump).collect()
}

fn nontrivial(r: &RefObs) -> bool {
    r.stats.alias_write_seen || r.stats.negative_or_oob_index || r.stats.multibyte_string
}

pub fn replay(case: &Value) -> Option<Violation> {
    let src = case.get("src")?.as_str()?;
    // the operations are recovered from the program text: everything between the prelude and the collector
    let prog = crate::dbgparse::parse_source(src).ok()?;
    let pre = prelude().len();
    if prog.len() < pre + 1 {
        return None;
    }
    let ops: BlockStmt = prog[pre..prog.len() - 1].to_vec();
    check_seq(&ops, None).err().map(|f| Violation { property: "C13".into(), driver: "replay".into(), class: f.0, case: case.clone(), expected: f.2, observed: f.3 })
}

pub fn run_check(ctx: &Ctx) -> Report {
    let mut rep = Report::new(
        "C13",
        "exploration",
        "flat top-level programs over the variables a0..a3: array / string literals (length 0-6, characters of 1-4 bytes), aliasing, element reads and writes, lengte, a mutating function, nesting, \
         reads through a temporary; the program ends with an array collecting all variables, so the final state and its sharing pattern come back as a result graph; \
         oracle: the reference interpreter (arrays with identity), and for a failing operation the globals at the moment of the error (exit snapshot) must equal the model state before that operation. \
         Complete enumeration: every index from -(len+2) to len+2 for every length 0-6, for arrays and strings, read and write; every value type as index and as stored value. \
         non-trivial = a write seen through another alias, an access with a negative or out-of-range index, or a string with a multi-byte character; distinct by source text",
    );
    rep.assumptions.push("U21: string elements are only replaced by one-character strings".into());
    rep.extra.insert("exhaustive_parts".into(), json!(["index x length grid (arrays and strings, read and write)", "7 value types as index and as stored value"]));
    // (1) complete index grid
    let mut grid: Vec<BlockStmt> = Vec::new();
    for len in 0..=6usize {
        let s: String = CHARS.iter().cycle().skip(len).take(len).copied().collect();
        for idx in -(len as i64 + 2)..=(len as i64 + 2) {
            for string_kind in [false, true] {
                let lit = if string_kind { string(&s) } else { array((0..len).map(|k| int(10 + k as i64)).collect()) };
                let setup = vec![es(assign(ident("a0"), lit)), es(assign(ident("a1"), ident("a0")))];
                let mut read = setup.clone();
                read.push(es(assign(ident("a2"), index(ident("a0"), int_expr(idx)))));
                grid.push(read);
                let mut write = setup.clone();
                write.push(es(assign(index(ident("a1"), int_expr(idx)), if string_kind { string("€") } else { int(77) })));
                grid.push(write);
                let mut viaf = setup.clone();
                viaf.push(es(assign(ident("a3"), calln("zet", vec![ident("a0"), int_expr(idx), if string_kind { string("𝄞") } else { string("w") }]))));
                grid.push(viaf);
            }
        }
    }
    // (2) every value type as index and as stored value
    for k in 0..7 {
        for string_kind in [false, true] {
            let lit = if string_kind { string("aé€") } else { array(vec![int(1), int(2), int(3)]) };
            let setup = vec![es(assign(ident("a0"), lit)), es(assign(ident("a1"), ident("a0")))];
            let mut a = setup.clone();
            a.push(es(assign(ident("a2"), index(ident("a0"), typed_value(k)))));
            grid.push(a);
            let mut b = setup.clone();
            b.push(es(assign(index(ident("a0"), typed_value(k)), int(5))));
            grid.push(b);
            let mut c = setup.clone();
            c.push(es(assign(index(ident("a1"), int(1)), typed_value(k))));
            grid.push(c);
            // indexing into a value of every type
            let mut d = setup.clone();
            d.push(es(assign(ident("a2"), typed_value(k))));
            d.push(es(assign(ident("r"), index(ident("a2"), int(0)))));
            grid.push(d);
        }
    }
    for ops in &grid {
        rep.eval();
        rep.count("grid");
        let mut st = RefObs { outcome: RefOutcome::Budget, output: String::new(), steps: 0, stats: Stats::default() };
        match check_seq(ops, Some(&mut st)) {
            Ok(_) => {
                if nontrivial(&st) {
                    rep.nontrivial(&print_canonical(ops));
                }
            }
            Err(f) => rep.violation(Violation { property: "C13".into(), driver: "grid".into(), class: f.0, case: f.1, expected: f.2, observed: f.3 }),
        }
    }
    rep.sample(json!({"grid_program": print_canonical(&program_of(&grid[40]))}));
    // (3) random operation sequences
    let cases = ctx.pick(150_000u32, 4_000_000u32) / ctx.shards as u32;
    let seed = ctx.seed;
    par_shards(ctx.shards, rep, move |shard, r| {
        let fail = run_tapes(seed.wrapping_mul(86_028_121) + shard as u64, cases, 300, |tape, shrinking| {
            let seq = gen_seq(tape);
            let mut st = RefObs { outcome: RefOutcome::Budget, output: String::new(), steps: 0, stats: Stats::default() };
            let res = check_seq(&seq.ops, Some(&mut st));
            if !shrinking {
                r.eval();
                r.count("sequences");
                match &st.outcome {
                    RefOutcome::Error(k) => r.count(&format!("ref:error:{}", k.name())),
                    RefOutcome::Value(_) => r.count("ref:value"),
                    RefOutcome::Unspecified(w) => r.count(&format!("discard:{w}")),
                    RefOutcome::Budget => r.count("discard:budget"),
                }
                if st.stats.alias_write_seen {
                    r.count("alias-write");
                }
                if nontrivial(&st) && res.is_ok() {
                    let src = print_canonical(&seq.ops);
                    r.nontrivial(&src);
                    if r.nontrivial.len() % 3000 == 1 {
                        r.sample(json!({"ops": src}));
                    }
                }
            }
            res.map(|_| ()).map_err(|f| f.0)
        });
        if let Some((tape, _)) = fail {
            let seq = gen_seq(&tape);
            if let Err(f) = check_seq(&seq.ops, None) {
                let cls = f.0.clone();
                // minimise the operation list (the prelude and the collector stay)
                let small = crate::minimize::minimize(&seq.ops, &mut |p| matches!(check_seq(p, None), Err(g) if g.0 == cls), 2000);
                if let Err(f) = check_seq(&small, None) {
                    r.violation(Violation { property: "C13".into(), driver: "sequences".into(), class: f.0, case: f.1, expected: f.2, observed: f.3 });
                }
            }
        }
    })
}
