//! C11 — structured control flow goes exactly where the source says.
use crate::ast::*;
use crate::diff::*;
use crate::difftest::*;
use crate::engine::*;
use crate::gen::Profile;
use crate::refint::RefObs;
use crate::report::*;
use serde_json::{json, Value};

pub fn nontrivial(r: &RefObs) -> bool {
    r.stats.early_exit_depth2 || r.stats.continue_in_2plus_iter_loop
}

// ---------------------------------------------------------------------------------------
// (1) template enumeration: chains of nested constructs with an exit action in the innermost body

#[derive(Clone, Copy, Debug, PartialEq)]
enum Cons {
    IfTrue,
    IfFalseElse,
    ElseIfSecond,
    While,
    Block,
    Function,
}
const CONS: [Cons; 6] = [Cons::IfTrue, Cons::IfFalseElse, Cons::ElseIfSecond, Cons::While, Cons::Block, Cons::Function];

#[derive(Clone, Copy, Debug, PartialEq)]
enum Exit {
    None,
    Stop,
    StopSecond,
    Volgende,
    VolgendeSecond,
    Antwoord,
    AntwoordSecond,
}
const EXITS: [Exit; 7] = [Exit::None, Exit::Stop, Exit::StopSecond, Exit::Volgende, Exit::VolgendeSecond, Exit::Antwoord, Exit::AntwoordSecond];

fn trace(s: &str) -> Stmt {
    es(calln("print", vec![string(s)]))
}

fn trace_v(s: &str, v: Expr) -> Stmt {
    es(calln("print", vec![string(&format!("{s} {{}}")), v]))
}

/// builds the program of a chain; None when the exit action is not admissible
fn build_chain(chain: &[Cons], exit: Exit, count: i64) -> Option<BlockStmt> {
    // admissibility: stop/volgende need a loop in the same function (no function between the loop and the exit);
    // antwoord needs an enclosing function
    let mut loop_in_fn = false;
    let mut innermost_loop: Option<usize> = None;
    let mut in_fn = false;
    for (i, c) in chain.iter().enumerate() {
        match c {
            Cons::Function => {
                in_fn = true;
                loop_in_fn = false;
                innermost_loop = None;
            }
            Cons::While => {
                loop_in_fn = true;
                innermost_loop = Some(i);
            }
            _ => {}
        }
    }
    match exit {
        Exit::Stop | Exit::Volgende if !loop_in_fn => return None,
        Exit::StopSecond | Exit::VolgendeSecond if !loop_in_fn => return None,
        Exit::Antwoord if !in_fn => return None,
        // the conditional return needs a loop counter of the same function to depend on
        Exit::AntwoordSecond if !in_fn || !loop_in_fn => return None,
        _ => {}
    }
    let counter = innermost_loop.map(|i| format!("i{i}"));
    let cond_second = counter.as_ref().map(|c| infix(ident(c), Operator::Eq, int(2)));
    // innermost body
    let mut body: BlockStmt = vec![trace("kern")];
    match exit {
        Exit::None => {}
        Exit::Stop => body.push(Stmt::Break),
        Exit::Volgende => body.push(Stmt::Continue),
        Exit::Antwoord => body.push(Stmt::Return(int(5))),
        Exit::StopSecond => body.push(es(iff(cond_second.clone().unwrap(), vec![trace("stop!"), Stmt::Break], None))),
        Exit::VolgendeSecond => body.push(es(iff(cond_second.clone().unwrap(), vec![trace("volgende!"), Stmt::Continue], None))),
        Exit::AntwoordSecond => body.push(es(iff(cond_second.clone().unwrap(), vec![trace("antwoord!"), Stmt::Return(int(6))], None))),
    }
    body.push(trace("na-kern"));
    // wrap from the inside out
    for (i, c) in chain.iter().enumerate().rev() {
        let inn = format!("in{i}");
        let uit = format!("uit{i}");
        let mut inner: BlockStmt = vec![trace(&inn)];
        inner.extend(body);
        inner.push(trace(&uit));
        body = match c {
            Cons::IfTrue => vec![es(iff(boolean(true), inner, None))],
            Cons::IfFalseElse => vec![es(iff(boolean(false), vec![trace("fout")], Some(inner)))],
            Cons::ElseIfSecond => vec![es(iff(boolean(false), vec![trace("fout1")], Some(vec![es(iff(boolean(true), inner, Some(vec![trace("fout2")])))])))],
            Cons::Block => vec![Stmt::Block(inner)],
            Cons::While => {
                let cn = format!("i{i}");
                let mut b = vec![es(assign(ident(&cn), infix(ident(&cn), Operator::Add, int(1)))), trace_v("ronde", ident(&cn))];
                b.extend(inner);
                vec![let_(&cn, int(0)), es(whil(infix(ident(&cn), Operator::Lt, int(count)), b)), trace_v("lus-klaar", ident(&cn))]
            }
            Cons::Function => {
                let fname = format!("f{i}");
                let mut b = inner;
                b.push(es(int(7)));
                vec![es(Expr::Function { name: fname.clone(), parameters: vec![], body: b }), trace_v("terug", calln(&fname, vec![]))]
            }
        };
    }
    let mut prog = vec![trace("begin")];
    prog.extend(body);
    prog.push(trace("einde"));
    prog.push(es(int(1)));
    Some(prog)
}

/// The same chains with every construct in VALUE position: the innermost body ends in a value (after its exit action),
/// every enclosing if / else / else-if branch, block statement and function body has the enclosed construct as its last
/// statement, so the value travels outwards through all of them and is printed at every level; a loop assigns the value
/// of its body (`w = als ja { … }`, an exit taken from there leaves an assignment half done) and yields the variable.
fn build_chain_value(chain: &[Cons], exit: Exit, count: i64) -> Option<BlockStmt> {
    // admissibility as in build_chain
    build_chain(chain, exit, count)?;
    let mut innermost_loop: Option<usize> = None;
    for (i, c) in chain.iter().enumerate() {
        match c {
            Cons::Function => innermost_loop = None,
            Cons::While => innermost_loop = Some(i),
            _ => {}
        }
    }
    let counter = innermost_loop.map(|i| format!("i{i}"));
    let cond_second = counter.as_ref().map(|c| infix(ident(c), Operator::Eq, int(2)));
    let mut body: BlockStmt = vec![trace("kern")];
    match exit {
        Exit::None => {}
        Exit::Stop => body.push(Stmt::Break),
        Exit::Volgende => body.push(Stmt::Continue),
        Exit::Antwoord => body.push(Stmt::Return(int(5))),
        Exit::StopSecond => body.push(es(iff(cond_second.clone().unwrap(), vec![trace("stop!"), Stmt::Break], None))),
        Exit::VolgendeSecond => body.push(es(iff(cond_second.clone().unwrap(), vec![trace("volgende!"), Stmt::Continue], None))),
        Exit::AntwoordSecond => body.push(es(iff(cond_second.clone().unwrap(), vec![trace("antwoord!"), Stmt::Return(int(6))], None))),
    }
    // the value: depends on the innermost counter when there is one
    body.push(es(match &counter {
        Some(c) => infix(int(40), Operator::Add, ident(c)),
        None => int(42),
    }));
    for (i, c) in chain.iter().enumerate().rev() {
        let inn = format!("in{i}");
        let mut inner: BlockStmt = vec![trace(&inn)];
        inner.extend(body);
        body = match c {
            Cons::IfTrue => vec![es(iff(boolean(true), inner, None))],
            Cons::IfFalseElse => vec![es(iff(boolean(false), vec![trace("fout"), es(int(-1))], Some(inner)))],
            Cons::ElseIfSecond => vec![es(iff(boolean(false), vec![es(int(-1))], Some(vec![es(iff(boolean(true), inner, Some(vec![es(int(-2))])))])))],
            Cons::Block => vec![Stmt::Block(inner)],
            Cons::While => {
                let cn = format!("i{i}");
                let wn = format!("w{i}");
                let b = vec![
                    es(assign(ident(&cn), infix(ident(&cn), Operator::Add, int(1)))),
                    es(assign(ident(&wn), iff(boolean(true), inner, None))),
                    trace_v("ronde", ident(&wn)),
                ];
                vec![let_(&cn, int(0)), let_(&wn, int(-3)), es(whil(infix(ident(&cn), Operator::Lt, int(count)), b)), es(ident(&wn))]
            }
            Cons::Function => {
                let fname = format!("f{i}");
                vec![es(Expr::Function { name: fname.clone(), parameters: vec![], body: inner }), es(calln(&fname, vec![]))]
            }
        };
        // the value as seen at this level
        let seen = format!("v{i}");
        let carried = iff(boolean(true), body, None);
        body = vec![let_(&seen, carried), trace_v(&format!("waarde{i}"), calln("string", vec![calln("type", vec![ident(&seen)])])), es(ident(&seen))];
    }
    let mut prog = vec![trace("begin")];
    prog.push(let_("uitkomst", iff(boolean(true), body, None)));
    prog.push(trace_v("einde", calln("type", vec![ident("uitkomst")])));
    prog.push(es(ident("uitkomst")));
    Some(prog)
}

fn template_violation(r: &mut Report, driver: &str, prog: &BlockStmt) {
    let out = diff_program(prog);
    r.eval();
    match out.verdict {
        Verdict::Agree => {
            if let Some(ro) = &out.refobs {
                if nontrivial(ro) {
                    r.nontrivial(&out.src);
                }
            }
        }
        Verdict::Discard(why) => r.count(&format!("discard:{}", why.split(':').next().unwrap_or(""))),
        Verdict::Violation { class, expected, observed } => {
            r.violation(Violation { property: "C11".into(), driver: driver.into(), class, case: json!({"src": out.src}), expected, observed });
        }
    }
}

fn enumerate_templates(r: &mut Report, shard: usize, shards: usize, max_depth: usize) {
    let mut idx = 0usize;
    for depth in 1..=max_depth {
        let total = 6usize.pow(depth as u32);
        for code in 0..total {
            let mut chain = Vec::new();
            let mut c = code;
            for _ in 0..depth {
                chain.push(CONS[c % 6]);
                c /= 6;
            }
            let has_loop = chain.contains(&Cons::While);
            for exit in EXITS {
                // loop counts: 0, 1, 2, 17 (one count for all loops of the chain); without a loop one program suffices
                let counts: &[i64] = if has_loop { &[0, 1, 2, 17] } else { &[1] };
                for count in counts {
                    idx += 1;
                    if idx % shards != shard {
                        continue;
                    }
                    if let Some(p) = build_chain(&chain, exit, *count) {
                        r.count("templates");
                        if idx % 9973 == 1 {
                            r.sample(json!({"template": format!("{chain:?} exit={exit:?} count={count}"), "src": crate::printer::print_canonical(&p)}));
                        }
                        template_violation(r, "templates", &p);
                    }
                    if let Some(p) = build_chain_value(&chain, exit, *count) {
                        r.count("templates-as-values");
                        if idx % 9973 == 2 {
                            r.sample(json!({"template-as-value": format!("{chain:?} exit={exit:?} count={count}"), "src": crate::printer::print_canonical(&p)}));
                        }
                        template_violation(r, "templates-as-values", &p);
                    }
                }
            }
        }
    }
}

// ---------------------------------------------------------------------------------------
// (3) residue: later code behaves the same after one iteration or a hundred thousand

const LOOP_BODIES: [(&str, &str); 27] = [
    ("empty-body", "zolang (i = i + 1) < N { }"),
    ("counter-only", "zolang i < N { i = i + 1 }"),
    ("empty-block-stmt", "zolang i < N { i = i + 1; {} }"),
    ("ends-in-declaration", "zolang i < N { i = i + 1; stel t = i }"),
    ("if-without-else", "zolang i < N { i = i + 1; als i % 2 == 0 { g = g + 1 } }"),
    ("if-branch-declaration", "zolang i < N { i = i + 1; als ja { stel t = 1 } }"),
    ("volgende", "zolang i < N { i = i + 1; als i % 2 == 0 { volgende }; g = g + 1 }"),
    ("nested-block-value", "zolang i < N { i = i + 1; { { i } } }"),
    ("loop-as-value", "stel w = zolang i < N { i = i + 1; i }"),
    ("inner-loop", "zolang i < N { i = i + 1; stel j = 0; zolang j < 2 { j = j + 1 } }"),
    ("call-in-body", "zolang i < N { i = i + 1; g = tel(g, 1) }"),
    // leaving the iteration from every position in which values of a half-evaluated expression are pending
    ("exit-from-operand", "zolang i < N { i = i + 1; g = 1 + als i % 2 == 0 { volgende } anders { 2 } }"),
    ("exit-from-operand", "zolang i < N { i = i + 1; stel j = 0; zolang ja { j = 1 + als j >= 0 { stop } anders { 2 } } }"),
    ("exit-from-nested-operand", "zolang i < N { i = i + 1; g = 1 + (2 * (3 - als i % 2 == 0 { volgende } anders { 2 })) }"),
    ("exit-from-argument", "zolang i < N { i = i + 1; g = tel(1, als i % 2 == 0 { volgende } anders { 2 }) }"),
    ("exit-from-first-argument", "zolang i < N { i = i + 1; g = tel(als i % 2 == 0 { volgende } anders { 2 }, 1) }"),
    ("exit-from-argument-operand", "zolang i < N { i = i + 1; g = tel(1, 2 + als i % 2 == 0 { volgende } anders { 2 }) }"),
    ("exit-from-builtin-argument", "zolang i < N { i = i + 1; g = lengte(string(als i % 2 == 0 { volgende } anders { 2 })) }"),
    ("exit-from-array-element", "zolang i < N { i = i + 1; g = lengte([1, 2, als i % 2 == 0 { volgende } anders { 2 }]) }"),
    ("exit-from-index", "zolang i < N { i = i + 1; g = rij[als i % 2 == 0 { volgende } anders { 0 }] }"),
    ("exit-from-assigned-element-value", "zolang i < N { i = i + 1; rij[0] = als i % 2 == 0 { volgende } anders { 2 } }"),
    ("exit-from-assigned-element-index", "zolang i < N { i = i + 1; rij[als i % 2 == 0 { volgende } anders { 0 }] = 5 }"),
    ("exit-from-condition-operand", "zolang i < N { i = i + 1; als 1 + als i % 2 == 0 { volgende } anders { 2 } > 0 { g = 1 } }"),
    ("stop-from-array-element", "zolang i < N { i = i + 1; stel j = 0; zolang ja { j = lengte([1, als j >= 0 { stop } anders { 2 }]) } }"),
    ("stop-from-assigned-element-value", "zolang i < N { i = i + 1; zolang ja { rij[0] = als i > 0 { stop } anders { 2 } } }"),
    ("stop-from-loop-condition", "zolang i < N { i = i + 1; zolang 1 + als i > 0 { stop } anders { 2 } > 0 { } }"),
    ("return-from-operand-in-loop", "functie vroeg(k) { zolang ja { stel q = 1 + als k > 0 { antwoord k } anders { 2 } } } zolang i < N { i = i + 1; g = vroeg(i) - i }"),
];

const LOOP_COUNTS: [i64; 5] = [1, 2, 70_000, 100_000, 200_000];

fn residue_program(body: &str, n: i64, in_function: bool) -> String {
    let lp = body.replace('N', &n.to_string());
    let prelude = "functie tel(x, y) { x + y } functie som(a, b) { stel c = a + b; c * 2 } functie diep(n) { als n <= 0 { antwoord 0 } 1 + diep(n - 1) } stel rij = [0, 0]";
    let probe = "print(\"{} {} {}\", som(3, 4), diep(5), g - g); stel laatste = [som(1, 2), diep(3)]; laatste";
    if in_function {
        format!("{prelude} functie werk() {{ stel g = 0; stel i = 0; {lp}; {probe} }} werk()")
    } else {
        format!("{prelude} stel g = 0; stel i = 0; {lp}; {probe}")
    }
}

fn residue_family(r: &mut Report) {
    for (name, body) in LOOP_BODIES {
        for in_function in [false, true] {
            let mut base: Option<(i64, String, Obs)> = None;
            for n in LOOP_COUNTS {
                let src = residue_program(body, n, in_function);
                let o = run_eval(&src, &RunCfg { budget: 20_000_000, audit_heap: true });
                r.eval();
                r.count("residue-runs");
                r.nontrivial(&src);
                if o.outcome == Outcome::Budget {
                    r.count("discard:budget (vm)");
                    continue;
                }
                let where_ = if in_function { "in-function" } else { "top-level" };
                match &base {
                    None => base = Some((n, src.clone(), o)),
                    Some((n0, src0, o0)) => {
                        if !o0.same_as(&o) || !o.events.is_empty() || o.outcome.is_crash() {
                            r.violation(Violation {
                                property: "C11".into(),
                                driver: "residue".into(),
                                class: format!("residue:{name}"),
                                case: json!({"kind": "residue", "shape": name, "where": where_, "src_small": src0, "src_large": src, "n_small": n0, "n_large": n}),
                                expected: o0.render(),
                                observed: o.render(),
                            });
                        }
                    }
                }
            }
        }
    }
    r.sample(json!({"residue": residue_program(LOOP_BODIES[2].1, 70_000, false)}));
}

// ---------------------------------------------------------------------------------------
// (4) the value of a loop (whatever the language takes it to be, U8) does not depend on WHERE in a statement the
//     iteration was left: `stop` / `volgende` taken while operands of a half-evaluated expression are pending must leave
//     the loop with the same value as the same exit taken as a statement of its own just before that expression.

const EXIT_POSITIONS: [(&str, &str); 12] = [
    ("operand", "g = 100 + X"),
    ("left-operand", "g = X + 100"),
    ("nested-operand", "g = 100 + (2 * (3 - X))"),
    ("argument", "g = tel(100, X)"),
    ("first-argument", "g = tel(X, 100)"),
    ("builtin-argument", "g = lengte(string(100 + X))"),
    ("array-element", "g = lengte([100, 200, X])"),
    ("index", "g = rij[X - 2]"),
    ("assigned-element-value", "rij[0] = X"),
    ("assigned-element-index", "rij[X - 2] = 100"),
    ("condition-operand", "als 100 + X > 0 { g = 1 }"),
    ("declaration", "stel q = 100 + X"),
];

fn exit_position_programs(stmt: &str, exit: &str, k: i64, tail: &str, in_function: bool) -> (String, String) {
    let make = |body: String| {
        let prelude = "functie tel(x, y) { x + y } stel rij = [0, 0]";
        let core = format!("stel g = 0; stel i = 0; stel w = zolang i < 5 {{ i = i + 1; {body}{tail} }}; print(\"{{}} {{}} {{}}\", i, g, type(w)); [w]");
        if in_function {
            format!("{prelude} functie werk() {{ {core} }} werk()")
        } else {
            format!("{prelude} {core}")
        }
    };
    let inside = make(stmt.replace('X', &format!("als i == {k} {{ {exit} }} anders {{ 2 }}")));
    let before = make(format!("als i == {k} {{ {exit} }}; {}", stmt.replace('X', "2")));
    (inside, before)
}

fn exit_position_family(r: &mut Report) {
    let cfg = RunCfg { budget: 2_000_000, audit_heap: true };
    for (name, stmt) in EXIT_POSITIONS {
        for exit in ["stop", "volgende"] {
            for k in [1i64, 3, 5] {
                // the body ends in a value, in a declaration, or right after the statement
                for tail in ["; i * 7", "; stel t = i", ""] {
                    for in_function in [false, true] {
                        let (inside, before) = exit_position_programs(stmt, exit, k, tail, in_function);
                        let oa = run_eval(&inside, &cfg);
                        let ob = run_eval(&before, &cfg);
                        r.eval();
                        r.count("exit-position-pairs");
                        r.nontrivial(&inside);
                        if oa.outcome == Outcome::Budget || ob.outcome == Outcome::Budget {
                            r.count("discard:budget (vm)");
                            continue;
                        }
                        if !oa.same_as(&ob) || !oa.events.is_empty() || oa.outcome.is_crash() {
                            r.violation(Violation {
                                property: "C11".into(),
                                driver: "exit-position".into(),
                                class: format!("loop-value-depends-on-exit-position:{name}"),
                                case: json!({"kind": "exit-position", "position": name, "src_inside": inside, "src_before": before}),
                                expected: ob.render(),
                                observed: oa.render(),
                            });
                        }
                    }
                }
            }
        }
    }
    r.sample(json!({"exit-position": exit_position_programs(EXIT_POSITIONS[3].1, "stop", 3, "; i * 7", false).0}));
}

pub fn replay(case: &Value) -> Option<Violation> {
    if case.get("kind").and_then(|k| k.as_str()) == Some("exit-position") {
        let a = case.get("src_inside")?.as_str()?;
        let b = case.get("src_before")?.as_str()?;
        let cfg = RunCfg { budget: 2_000_000, audit_heap: true };
        let oa = run_eval(a, &cfg);
        let ob = run_eval(b, &cfg);
        if !oa.same_as(&ob) || !oa.events.is_empty() || oa.outcome.is_crash() {
            return Some(Violation { property: "C11".into(), driver: "replay".into(), class: format!("loop-value-depends-on-exit-position:{}", case.get("position").and_then(|s| s.as_str()).unwrap_or("?")), case: case.clone(), expected: ob.render(), observed: oa.render() });
        }
        return None;
    }
    if case.get("kind").and_then(|k| k.as_str()) == Some("residue") {
        let a = case.get("src_small")?.as_str()?;
        let b = case.get("src_large")?.as_str()?;
        let cfg = RunCfg { budget: 20_000_000, audit_heap: true };
        let oa = run_eval(a, &cfg);
        let ob = run_eval(b, &cfg);
        if !oa.same_as(&ob) || !ob.events.is_empty() || ob.outcome.is_crash() {
            return Some(Violation { property: "C11".into(), driver: "replay".into(), class: format!("residue:{}", case.get("shape").and_then(|s| s.as_str()).unwrap_or("?")), case: case.clone(), expected: oa.render(), observed: ob.render() });
        }
        return None;
    }
    replay_src("C11", case)
}

pub fn run_check(ctx: &Ctx) -> Report {
    let mut rep = Report::new(
        "C11",
        "exploration",
        "(1) ALL chains of nested constructs {if, if-else, else-if, zolang, block, function} up to depth 4 (quick) / 5 (thorough) with every admissible exit action \
         {none, stop, stop on the 2nd round, volgende, volgende on the 2nd round, antwoord, antwoord on the 2nd round} in the innermost body, loop counts {0,1,2,17}, every level instrumented with print trace points, \
         against the reference interpreter; (2) random programs of the `control` profile against the reference interpreter; \
         (3) residue: 27 loop shapes (every position in which operands are pending when the iteration is left) x {top level, inside a function} x n in {1, 2, 70 000, 100 000, 200 000} followed by a probe (calls with arguments and locals, recursion, globals) whose observation must not depend on n. \
         (4) exit-position independence: 12 positions in which operands are pending x {stop, volgende} x iteration {1, 3, last} x 3 body endings x {top level, function}: the loop, used as a value, \
         must leave the same observation as with the same exit taken as a statement just before (implementation against itself; what the value of a loop is stays open, U8). \
         non-trivial = the executed path takes an early exit from nesting depth >=2 or a loop runs >=2 rounds with a volgende; all residue runs count; distinct by source text",
    );
    rep.assumptions.push("U8: the value of a zolang expression is not fixed; it is only bound to variables that are never read".into());
    let known = load_known_findings();
    let cases = ctx.pick(150_000u32, 4_000_000u32) / ctx.shards as u32;
    let seed = ctx.seed;
    let depth = ctx.pick(4usize, 5usize);
    let shards = ctx.shards;
    let mut rep = par_shards(ctx.shards, rep, move |shard, r| {
        enumerate_templates(r, shard, shards, depth);
        let cfg = DiffCfg { prop: "C11", driver: "random-control", profile: Profile::control(), cases, max_len: 600, seed: seed.wrapping_mul(49_979_687) + shard as u64, layout: false };
        run_diff_tapes(r, &cfg, &nontrivial, &known);
    });
    residue_family(&mut rep);
    exit_position_family(&mut rep);
    rep.extra.insert("exhaustive_parts".into(), json!([format!("all construct chains up to depth {depth} x 7 exit actions x loop counts")]));
    rep
}
