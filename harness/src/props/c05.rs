//! C05 — every failure is an error value: no input crashes or hangs the interpreter.
use crate::engine::*;
use crate::gen::*;
use crate::printer::print_canonical;
use crate::props::c08::{gen_token, render};
use crate::report::*;
use crate::tape::{run_tapes, Tape};
use serde_json::{json, Value};

const BUDGET: u64 = 200_000;

fn classify(o: &Obs) -> Option<String> {
    if o.outcome.is_crash() {
        return Some(format!("crash:{}", crate::diff::crash_class(&o.outcome)));
    }
    if let Some(e) = o.events.first() {
        let short: String = e.split(|c: char| c.is_ascii_digit()).next().unwrap_or(e).trim().trim_end_matches(" of").to_string();
        return Some(format!("event:{short}"));
    }
    None
}

fn stage(o: &Obs) -> &'static str {
    match &o.outcome {
        Outcome::Value(_) => "ok",
        Outcome::Budget => "budget",
        Outcome::Error(ErrKind::Syntax) => "syntax-error",
        Outcome::Error(ErrKind::Reference) => "reference-error",
        Outcome::Error(_) => "run-error",
        _ => "crash",
    }
}

fn check_text(text: &str, budget: u64) -> (Obs, Option<String>) {
    let o = run_eval(text, &RunCfg { budget, audit_heap: false });
    let c = classify(&o);
    (o, c)
}

fn viol(driver: &str, class: String, text: &str, o: &Obs) -> Violation {
    Violation {
        property: "C05".into(),
        driver: driver.into(),
        class,
        case: json!({"text": text}),
        expected: "a value or one of the five documented error kinds".into(),
        observed: o.render(),
    }
}

pub fn replay(case: &Value) -> Option<Violation> {
    if let (Some("cli"), Some(bytes)) = (case.get("kind").and_then(|k| k.as_str()), case.get("bytes").and_then(|b| b.as_array())) {
        let bytes: Vec<u8> = bytes.iter().filter_map(|x| x.as_u64().map(|v| v as u8)).collect();
        let mode = case.get("mode").and_then(|m| m.as_str()).unwrap_or("file");
        return cli_verdict_bytes(mode, &bytes).err().map(|(class, observed)| Violation {
            property: "C05".into(),
            driver: "replay".into(),
            class: format!("{class}:not-utf8"),
            case: case.clone(),
            expected: "the program reports input it cannot read and ends in an orderly way".into(),
            observed,
        });
    }
    let text = case.get("text")?.as_str()?;
    if case.get("kind").and_then(|k| k.as_str()) == Some("cli") {
        let mode = case.get("mode").and_then(|m| m.as_str()).unwrap_or("file");
        return cli_verdict(mode, text).err().map(|(class, observed)| Violation {
            property: "C05".into(),
            driver: "replay".into(),
            class,
            case: case.clone(),
            expected: "the program prints a value or an error for every input and ends with exit code 0 when its input ends".into(),
            observed,
        });
    }
    let budget = case.get("budget").and_then(|b| b.as_u64()).unwrap_or(5_000_000);
    if case.get("shallow").and_then(|b| b.as_bool()) == Some(true) {
        let o = crate::engine::run_eval_shallow(text, budget);
        return classify(&o).map(|c| viol("replay", c, text, &o));
    }
    let (o, c) = check_text(text, budget);
    c.map(|c| viol("replay", c, text, &o))
}

/// program strings of the repository: examples/*.nl and the string arguments of eval(..)/run(..)/parse(..) in the test suite
pub fn corpus_programs() -> Vec<String> {
    let mut out = Vec::new();
    if let Ok(rd) = std::fs::read_dir("/repo/examples") {
        let mut files: Vec<_> = rd.filter_map(|e| e.ok()).map(|e| e.path()).filter(|p| p.extension().map(|x| x == "nl").unwrap_or(false)).collect();
        files.sort();
        for f in files {
            if let Ok(s) = std::fs::read_to_string(&f) {
                out.push(s);
            }
        }
    }
    for f in ["/repo/tests/vm_test.rs", "/repo/src/compiler.rs", "/repo/src/parser.rs", "/repo/README.md"] {
        let text = std::fs::read_to_string(f).unwrap_or_default();
        if f.ends_with(".md") {
            // fenced code blocks
            let mut inside = false;
            let mut cur = String::new();
            for line in text.lines() {
                if line.trim_start().starts_with("```") {
                    if inside && !cur.trim().is_empty() {
                        out.push(cur.clone());
                    }
                    cur.clear();
                    inside = !inside;
                } else if inside {
                    cur.push_str(line);
                    cur.push('\n');
                }
            }
            continue;
        }
        for marker in ["eval(", "run(", "parse(", "assert_bytecode_eq("] {
            let mut rest = text.as_str();
            while let Some(p) = rest.find(marker) {
                rest = &rest[p + marker.len()..];
                let t = rest.trim_start();
                if let Some(lit) = t.strip_prefix('"') {
                    let mut s = String::new();
                    let mut it = lit.chars();
                    while let Some(c) = it.next() {
                        match c {
                            '"' => break,
                            '\\' => match it.next() {
                                Some('n') => s.push('\n'),
                                Some('t') => s.push('\t'),
                                Some('"') => s.push('"'),
                                Some('\\') => s.push('\\'),
                                Some(o) => {
                                    s.push('\\');
                                    s.push(o)
                                }
                                None => break,
                            },
                            c => s.push(c),
                        }
                    }
                    if !s.is_empty() && !out.contains(&s) {
                        out.push(s);
                    }
                }
            }
        }
    }
    out
}

pub fn directed_corpus() -> Vec<(String, String)> {
    directed()
}

fn directed() -> Vec<(String, String)> {
    let mut v: Vec<(&str, String)> = vec![
        ("zero-divisor", "1 / 0".into()),
        ("zero-divisor", "1 % 0".into()),
        ("zero-divisor", "functie f(x) { 7 / x } f(0)".into()),
        ("huge-literal", "99999999999999999999".into()),
        ("huge-literal", "1152921504606846976".into()),
        ("huge-literal", "-1152921504606846977".into()),
        ("huge-literal", "9223372036854775807".into()),
        ("huge-literal", "9223372036854775808".into()),
        ("huge-literal", format!("1{}.5", "0".repeat(400))),
        ("huge-literal", format!("0.{}1", "0".repeat(400))),
        ("overflow", "1152921504606846975 + 1".into()),
        ("overflow", "1152921504606846975 * 1152921504606846975".into()),
        ("overflow", "-(-1152921504606846975 - 1)".into()),
        ("overflow", "int(\"1152921504606846976\")".into()),
        ("overflow", "int(1152921504606846976.0)".into()),
        ("overflow", "int(1.0 / 0.0)".into()),
        ("overflow", "int(0.0 / 0.0)".into()),
        ("wrong-arity", "functie f() { 1 } f(1, 2)".into()),
        ("wrong-arity", "functie f(a, b) { a } f(1)".into()),
        ("wrong-arity", "functie f(a, b) { a + b } f()".into()),
        ("wrong-arity", "lengte()".into()),
        ("wrong-arity", "type(1, 2)".into()),
        ("misplaced", "antwoord 1".into()),
        ("misplaced", "stop".into()),
        ("misplaced", "volgende".into()),
        ("misplaced", "als ja { stop }".into()),
        ("misplaced", "zolang ja { functie() { stop }() }".into()),
        ("misplaced", "functie f() { volgende } f()".into()),
        ("misplaced", "{ antwoord 1 }".into()),
        ("self-reference", "stel x = x".into()),
        ("self-reference", "stel x = x + 1; x".into()),
        ("self-reference", "functie f() { stel y = y; y } f()".into()),
        ("self-reference", "stel f = f(1)".into()),
        ("self-reference", "stel a = [a]".into()),
        ("non-ascii-index", "\"é\"[1]".into()),
        ("non-ascii-index", "\"é€𝄞\"[2]".into()),
        ("non-ascii-index", "\"é€𝄞\"[-3]".into()),
        ("non-ascii-index", "stel s = \"é€\"; s[1] = \"𝄞\"; s".into()),
        ("non-ascii-index", "stel s = \"é€\"; s[2] = \"x\"".into()),
        ("non-ascii-index", "stel s = \"ab\"; s[0] = s; s".into()),
        ("non-ascii-index", "stel s = \"aé\"; s[1] = \"\"; s[1]".into()),
        ("compare", "[1] == [1]".into()),
        ("compare", "[1] < [2]".into()),
        ("compare", "stel f = functie() { 1 }; stel g = functie() { 2 }; f < g".into()),
        ("compare", "stel f = functie() { 1 }; f == f".into()),
        ("compare", "(als nee { 1 }) < (als nee { 1 })".into()),
        ("cyclic", "stel a = [0]; a[0] = a; print(a)".into()),
        ("cyclic", "stel a = [0]; a[0] = a; string(a)".into()),
        ("cyclic", "stel a = [0]; a[0] = a; bool(a)".into()),
        ("cyclic", "stel a = [0]; a[0] = a; lengte(a)".into()),
        ("cyclic", "stel a = [0]; a[0] = a; type(a)".into()),
        ("cyclic", "stel a = [0]; a[0] = a; int(a)".into()),
        ("cyclic", "stel a = [0]; a[0] = a; float(a)".into()),
        ("cyclic", "stel a = [0]; a[0] = a; a".into()),
        ("cyclic", "stel a = [0]; stel b = [a]; a[0] = b; print(\"{}\", b)".into()),
        ("unterminated", "\"abc".into()),
        ("unterminated", "\"abc\\\"".into()),
        ("unterminated", "1 // opmerking zonder einde".into()),
        ("unterminated", "//".into()),
        ("unterminated", "functie (".into()),
        ("unterminated", "functie f(1)".into()),
        ("unterminated", "functie f(a".into()),
        ("unterminated", "f(1, 2".into()),
        ("unterminated", "[1, 2".into()),
        ("unterminated", "als ja {".into()),
        ("unterminated", "zolang".into()),
        ("unterminated", "stel".into()),
        ("unterminated", "stel x".into()),
        ("unterminated", "stel x =".into()),
        ("unterminated", "1 +".into()),
        ("unterminated", "(".into()),
        ("unterminated", "a[".into()),
        ("lone-operator", "&".into()),
        ("lone-operator", "|".into()),
        ("lone-operator", "1 & 2".into()),
        ("lone-operator", "1 | 2".into()),
        ("lone-operator", "=".into()),
        ("lone-operator", "1 = 2".into()),
        ("lone-operator", "^".into()),
        ("lone-operator", "1 ^ 2".into()),
        ("lone-operator", ".".into()),
        ("lone-operator", "a.b".into()),
        ("lone-operator", "1..2".into()),
        ("lone-operator", "!".into()),
        ("lone-operator", "- -".into()),
        ("lone-operator", "1 1".into()),
        ("lone-operator", "anders".into()),
        ("lone-operator", "als ja { 1 } anders anders".into()),
        ("call-non-function", "1(2)".into()),
        ("call-non-function", "stel x = 1; x(2)".into()),
        ("call-non-function", "\"f\"(1)".into()),
        ("call-non-function", "print(print)".into()),
        ("call-non-function", "stel print = 1; print(2)".into()),
        ("call-non-function", "functie int(x) { x } int(\"5\")".into()),
        ("empty", "".into()),
        ("empty", " \n\t ".into()),
        ("empty", ";".into()),
        ("empty", ";;".into()),
        ("empty", "{}".into()),
        ("empty", "{;}".into()),
        ("empty", "functie f() {} f()".into()),
        ("empty", "[]".into()),
        ("empty", "[,]".into()),
        ("empty", "f(,)".into()),
        ("recursion", "functie f(n) { f(n + 1) } f(0)".into()),
        ("recursion", "functie f() { f() } f()".into()),
        ("recursion", "functie f(n) { [n, f(n + 1)] } f(0)".into()),
        ("recursion", "stel f = functie(n) { 1 + f(n + 1) }; f(0)".into()),
    ];
    // every prefix of every keyword
    for kw in ["als", "anders", "antwoord", "functie", "zolang", "stel", "ja", "nee", "stop", "volgende"] {
        for i in 1..=kw.len() {
            v.push(("keyword-prefix", kw[..i].to_string()));
            v.push(("keyword-prefix", format!("{} x", &kw[..i])));
        }
    }
    // machine limits
    v.push(("limits", format!("f({})", vec!["1"; 256].join(", "))));
    v.push(("limits", format!("functie f({}) {{ 1 }} f({})", (0..256).map(|i| format!("p{i}")).collect::<Vec<_>>().join(", "), vec!["1"; 256].join(", "))));
    v.push(("limits", format!("print({})", vec!["1"; 300].join(", "))));
    v.push(("limits", format!("[{}]", (0..70_000).map(|i| i.to_string()).collect::<Vec<_>>().join(", "))));
    v.push(("limits", (0..70_000).map(|i| format!("{i};")).collect::<Vec<_>>().join(" ")));
    v.push(("limits", format!("als ja {{ {} }}", vec!["1;"; 20_000].join(" "))));
    v.push(("limits", format!("zolang nee {{ {} }}", vec!["1;"; 20_000].join(" "))));
    v.push(("limits", format!("functie f() {{ {} }} f()", vec!["1;"; 20_000].join(" "))));
    v.push(("limits", format!("functie f() {{ {} 1 }} f()", (0..70_000).map(|i| format!("stel v{i} = 0;")).collect::<Vec<_>>().join(" "))));
    v.push(("limits", (0..70_000).map(|i| format!("stel g{i} = 0;")).collect::<Vec<_>>().join(" ")));
    v.push(("limits", format!("stel a = [{}]; lengte(a)", vec!["0"; 66_000].join(","))));
    v.push(("limits", format!("\"{}\"", "a".repeat(100_000))));
    v.into_iter().map(|(a, b)| (a.to_string(), b)).collect()
}

fn deep_nesting() -> Vec<(String, String)> {
    let mut v = Vec::new();
    for depth in [100usize, 1000, 5000, 20_000, 100_000] {
        v.push((format!("nesting-parens-{depth}"), format!("{}1{}", "(".repeat(depth), ")".repeat(depth))));
        v.push((format!("nesting-brackets-{depth}"), format!("{}{}", "[".repeat(depth), "]".repeat(depth))));
        v.push((format!("nesting-blocks-{depth}"), format!("{}{}", "{".repeat(depth), "}".repeat(depth))));
        v.push((format!("nesting-minus-{depth}"), format!("{}1", "-".repeat(depth))));
        v.push((format!("nesting-not-{depth}"), format!("{}ja", "!".repeat(depth))));
        v.push((format!("nesting-if-{depth}"), format!("{}1{}", "als ja { ".repeat(depth), " }".repeat(depth))));
        v.push((format!("nesting-open-only-{depth}"), "(".repeat(depth)));
        v.push((format!("chain-plus-{depth}"), vec!["1"; depth].join(" + ")));
        v.push((format!("nesting-functions-{depth}"), format!("{}1{}", "functie() { ".repeat(depth), " }".repeat(depth))));
        v.push((format!("nesting-elseif-{depth}"), format!("als nee {{ 1 }}{}", " anders als nee { 2 }".repeat(depth))));
    }
    v
}

/// Inputs whose size, not their shape, is the difficulty: every stage of the interpreter meets a text, a token, a list, a heap
/// structure or a run that is large in ONE dimension (a stage that needs native stack, or an index, in proportion to it breaks).
/// `small`: sizes for the unoptimised build, where the stages that are quadratic in the number of names or constants are slow.
/// (name, text, instruction budget)
pub fn scale_inputs(small: bool) -> Vec<(String, String, u64)> {
    let linear: &[usize] = &[1_000, 30_000, 300_000];
    let tables: &[usize] = if small { &[1_000, 12_000] } else { &[1_000, 30_000, 70_000] };
    let runs: &[usize] = &[1_000, 30_000, 200_000];
    let mut v: Vec<(String, String, u64)> = Vec::new();
    let mut add = |name: &str, n: usize, text: String| {
        let name = format!("scale:{name}:{n}");
        if !v.iter().any(|x: &(String, String, u64)| x.0 == name) {
            v.push((name, text, 60_000_000))
        }
    };
    for &n in linear {
        // lexer: long runs of one kind of character / token
        add("blanks", n, format!("{}print(1)", " ".repeat(n)));
        add("newlines", n, format!("{}print(1)", "\n".repeat(n)));
        add("tabs-and-blanks", n, format!("1{}+ 1", " \t\r\n".repeat(n / 4)));
        add("comment-lines", n / 4, format!("{}print(1)", "// x\n".repeat(n / 4)));
        add("comment-lines-blank", n / 8, format!("{}1", "  // commentaar\n\n".repeat(n / 8)));
        add("one-long-comment", n, format!("1 //{}", "x".repeat(n)));
        add("identifier", n, format!("stel {0} = 1\n{0}", "a".repeat(n)));
        add("unknown-identifier", n, "b".repeat(n));
        add("string-literal", n, format!("lengte(\"{}\")", "x".repeat(n)));
        add("string-escapes", n, format!("lengte(\"{}\")", "\\n".repeat(n)));
        add("string-unicode", n, format!("lengte(\"{}\")", "é€😀".repeat(n / 3)));
        add("unterminated-string", n, format!("\"{}", "x".repeat(n)));
        add("digits", n, "1".repeat(n));
        add("float-digits", n, format!("1.{}", "1".repeat(n)));
        add("float-integer-part", n, format!("{}.5", "1".repeat(n)));
        add("illegal-characters", n, "@".repeat(n));
        add("semicolons", n, format!("1{}", ";".repeat(n)));
        // parser / compiler: long flat sequences
        add("statements", n, "1;".repeat(n));
        add("statement-lines", n, "1\n".repeat(n));
        add("assignments", n / 4, format!("stel a = 0\n{}a", "a += 1\n".repeat(n / 4)));
        add("array-literal", n, format!("lengte([{}1])", "1,".repeat(n)));
        add("arguments", n, format!("functie f(a) {{ 1 }}\nf({}1)", "1,".repeat(n)));
        add("declaration-chain", n, format!("{}1", "stel a = ".repeat(n)));
        add("prints", n / 8, "print(\"{} {}\", 1, \"a\")\n".repeat(n / 8));
    }
    for &n in tables {
        // symbol table, constant pool, code size
        add("globals", n, format!("{}g0", (0..n).map(|i| format!("stel g{i} = {i}\n")).collect::<String>()));
        add("locals", n, format!("functie f() {{ {} 1 }}\nf()", (0..n).map(|i| format!("stel l{i} = {i}\n")).collect::<String>()));
        add("parameters", n, format!("functie f({}) {{ 1 }}\n1", (0..n).map(|i| format!("p{i}")).collect::<Vec<_>>().join(", ")));
        add("int-constants", n, format!("stel s = 0\n{}s", (0..n).map(|i| format!("s = s + {}\n", i + 1000)).collect::<String>()));
        // (every comparison with a pooled string or float passes the shadow heap's hook: keep these pools moderate)
        add("string-constants", n.min(12_000), format!("{}1", (0..n.min(12_000)).map(|i| format!("\"s{i}\"\n")).collect::<String>()));
        add("float-constants", n.min(12_000), format!("{}1", (0..n.min(12_000)).map(|i| format!("{i}.5\n")).collect::<String>()));
        add("functions", n, format!("{}f0()", (0..n).map(|i| format!("functie f{i}() {{ {i} }}\n")).collect::<String>()));
        add("scopes", n, format!("{}1", (0..n).map(|i| format!("{{ stel b{i} = {i} }}\n")).collect::<String>()));
        add("redeclarations", n, format!("{}a", "stel a = 1\n".repeat(n)));
    }
    for &n in runs {
        // run time: heap structures and runs that are large in one dimension; a collection runs at every function return
        let list = format!("stel a = []\nstel i = 0\nzolang i < {n} {{ a = [i, a]; i += 1 }}\n");
        add("list-then-call", n, format!("{list}functie f() {{ 1 }}\nf()"));
        add("list-call-in-loop", n.min(30_000), format!("functie f(x) {{ [x] }}\nstel a = []\nstel i = 0\nzolang i < {} {{ a = [f(i), a]; i += 1 }}\nlengte(a)", n.min(3_000)));
        add("list-printed", n, format!("{list}print(lengte(a))\nprint(a)\n1"));
        add("list-as-result", n, format!("{list}a"));
        add("list-as-function-result", n, format!("functie maak(n) {{ stel a = []\nstel i = 0\nzolang i < n {{ a = [i, a]; i += 1 }}\na }}\nstel l = maak({n})\nlengte(l)"));
        add("list-in-builtins", n, format!("{list}print(type(a))\nprint(bool(a))\nlengte(a)"));
        add("list-to-string", n, format!("{list}string(a)"));
        add("list-compared", n, format!("{list}a == a"));
        add("nested-array", n, format!("stel a = []\nstel i = 0\nzolang i < {n} {{ a = [a]; i += 1 }}\nfunctie f() {{ 1 }}\nf() + f()"));
        add("cyclic-list", n, format!("{list}stel eind = a\nstel k = 0\nzolang k < {} {{ eind = eind[1]; k += 1 }}\neind[1] = a\nfunctie f() {{ 1 }}\nprint(lengte(string(f())))\nprint(a)\n1", n - 1));
        add("wide-array-of-strings", n.min(60_000), format!("functie f() {{ [{}] }}\nlengte(f())", "\"s\", ".repeat(n.min(60_000))));
        add("string-doubling", n, format!("stel s = \"ab\"\nstel i = 0\nzolang i < {} {{ s[0] = s; i += 1 }}\nfunctie f() {{ 1 }}\nf() + lengte(s)", [10usize, 18, 22][runs.iter().position(|x| *x == n).unwrap()]));
        add("garbage-strings", n, format!("functie f(x) {{ string(x) }}\nstel i = 0\nstel s = \"\"\nzolang i < {} {{ s = f(i); i += 1 }}\ns", n.min(20_000)));
        add("index-assignments", n, format!("stel a = [0, 0.5, \"x\"]\nstel i = 0\nzolang i < {n} {{ a[i % 3] = [i]; i += 1 }}\nfunctie f() {{ 1 }}\nf()"));
        add("garbage-floats", n, format!("stel i = 0\nstel x = 0.5\nzolang i < {n} {{ x = x + 1.5; i += 1 }}\nfunctie f() {{ 1 }}\nf()"));
        add("recursion", n, format!("functie f(n) {{ als n == 0 {{ 0 }} anders {{ 1 + f(n - 1) }} }}\nf({n})"));
        add("loop-value", n, format!("stel i = 0\nstel r = zolang i < {n} {{ i += 1; [i] }}\nlengte(r)"));
        add("continue-many", n, format!("stel i = 0\nzolang i < {n} {{ i += 1; als i > 0 {{ volgende }}; 1 }}\ni"));
    }
    v
}

/// combinations of nesting constructs and operator chains: `levels` nestings, each carrying a chain of `chain` operators,
/// cycling through the given constructs. The syntax tree can be much deeper than any single construct nests.
fn deep_combinations() -> Vec<(String, String)> {
    // (name, text before the nested part, text after it); `CHAIN` is replaced by ` + 1` repeated
    let constructs: [(&str, &str, &str); 14] = [
        ("paren-right", "0 + (", "CHAIN)"),
        ("paren-left", "(", ")CHAIN"),
        ("call-arg", "f(0, ", "CHAIN)"),
        ("call-arg-first", "f(", "CHAIN, 0)"),
        ("index", "a[", "CHAIN]"),
        ("array", "[0, ", "CHAIN]"),
        ("prefix-minus", "-(", "CHAIN)"),
        ("prefix-not", "!(", "CHAIN)"),
        ("if-condition", "als ", "CHAIN { 1 }"),
        ("if-branch", "als ja { ", "CHAIN }"),
        ("else-branch", "als nee { 1 } anders { ", "CHAIN }"),
        ("function-body", "functie() { ", "CHAIN }"),
        ("loop-condition", "zolang ", "CHAIN { }"),
        ("assignment", "x = ", "CHAIN"),
    ];
    let mut v = Vec::new();
    let sizes: [(usize, usize); 8] = [(90, 900), (150, 5), (195, 1), (30, 990), (190, 900), (10, 1500), (60, 60), (8, 5000)];
    let mut cycles: Vec<Vec<usize>> = (0..constructs.len()).map(|i| vec![i]).collect();
    for (i, j) in [(0, 1), (0, 2), (1, 4), (2, 5), (3, 0), (4, 6), (5, 9), (6, 0), (8, 0), (9, 1), (10, 2), (11, 0), (12, 1), (13, 0), (0, 11), (2, 8)] {
        cycles.push(vec![i, j]);
    }
    for cyc in &cycles {
        for (levels, chain) in sizes {
            let chain_text = " + 1".repeat(chain);
            let mut pre = String::new();
            let mut post: Vec<String> = Vec::new();
            for l in 0..levels {
                let (_, a, b) = constructs[cyc[l % cyc.len()]];
                pre.push_str(a);
                post.push(b.replace("CHAIN", &chain_text));
            }
            post.reverse();
            let text = format!("{pre}1{}", post.concat());
            let name = format!("combo:{}:{levels}x{chain}", cyc.iter().map(|i| constructs[*i].0).collect::<Vec<_>>().join("+"));
            v.push((name, text));
        }
    }
    v
}

const NOISE: [&str; 24] = ["\u{0}", "\u{7f}", "\u{80}", "\u{feff}", "\u{200b}", "\u{2028}", "\u{e000}", "\u{10ffff}", "\\", "\"", "'", "`", "$", "€", "é", "𝄞", "٣", "\r", "\u{b}", "/*", "*/", "#", "0x", "1e9"];

fn gen_input(tape: &[u8], corpus: &[String], profiles: &[Profile]) -> (String, &'static str) {
    let mut t = Tape::new(tape);
    match t.below(10) {
        0 | 1 => {
            // random token sequence over the full vocabulary
            let n = 1 + t.below(200);
            let toks: Vec<_> = (0..n).map(|_| gen_token(&mut t)).collect();
            (render(&toks, &mut t).0, "token-sequence")
        }
        2 | 3 | 4 => {
            // token-level edits of a well-formed program
            let base = if t.maybe(100) && !corpus.is_empty() {
                t.pick(corpus).clone()
            } else {
                let p = t.pick(profiles).clone();
                let rest = &tape[t.used().min(tape.len())..];
                print_canonical(&gen_program(rest, &p).0)
            };
            let mut words: Vec<String> = base.split_inclusive(|c: char| c.is_whitespace() || "(){}[];,".contains(c)).map(|s| s.to_string()).collect();
            let edits = 1 + t.below(4);
            for _ in 0..edits {
                if words.is_empty() {
                    break;
                }
                let i = t.below(words.len());
                match t.below(4) {
                    0 => {
                        words.remove(i);
                    }
                    1 => {
                        let w = words[i].clone();
                        words.insert(i, w);
                    }
                    2 => {
                        let j = t.below(words.len());
                        words.swap(i, j);
                    }
                    _ => words[i] = format!("{} ", gen_token(&mut t).text),
                }
            }
            (words.concat(), "token-edit")
        }
        5 => {
            // truncation of a generated program at a random byte offset (the complete truncation of the corpus is a separate family)
            let p = t.pick(profiles).clone();
            let rest = &tape[t.used().min(tape.len())..];
            let src = print_canonical(&gen_program(rest, &p).0);
            let cut = t.below(src.len() + 1);
            (String::from_utf8_lossy(&src.as_bytes()[..cut]).to_string(), "truncation")
        }
        6 | 7 => {
            // noise: random scalar values, noise pieces and raw bytes (lossily decoded)
            let n = t.below(60);
            let mut bytes: Vec<u8> = Vec::new();
            for _ in 0..n {
                match t.below(4) {
                    0 => bytes.push(t.byte()),
                    1 => bytes.extend(t.pick_str(&NOISE).as_bytes()),
                    2 => {
                        let c = char::from_u32((t.u64() % 0x11_0000) as u32).unwrap_or('?');
                        let mut b = [0u8; 4];
                        bytes.extend(c.encode_utf8(&mut b).as_bytes());
                    }
                    _ => bytes.extend(gen_token(&mut t).text.as_bytes()),
                }
            }
            (String::from_utf8_lossy(&bytes).to_string(), "noise")
        }
        _ => {
            // a well-formed generated program with faults (including arity faults)
            let p = t.pick(profiles).clone();
            let rest = &tape[t.used().min(tape.len())..];
            (print_canonical(&gen_program(rest, &p).0), "generated")
        }
    }
}

pub fn run_check(ctx: &Ctx) -> Report {
    let mut rep = Report::new(
        "C05",
        "exploration",
        "inputs: random token sequences (<=200 tokens) over the whole vocabulary; 1-4 token edits of well-formed programs (generated, examples/*.nl, every program string of the test suite and README); \
         truncation of the corpus programs at EVERY byte offset (complete) and of generated programs at random offsets; random Unicode / byte noise; a directed corpus of boundary programs (huge and boundary literals, zero divisors, \
         wrong-arity calls, misplaced antwoord/stop/volgende, self-referential initialisers, non-ASCII indexing, comparisons of arrays/functions, cyclic arrays in every builtin, unterminated constructs, lone operators, every prefix of every keyword, \
         256 arguments, >65 535 constants / locals / code bytes, unbounded recursion) and deep nesting (100 ... 100 000 levels of one construct, and combinations of 14 nesting constructs with operator chains whose syntax tree is far deeper than any single nesting; evaluated on a thread with the platform's default 8 MB stack). \
         the command-line program built from the same tree (src/bin/nederlang.rs) is given the directed corpus, generated inputs and the lines of generated sessions both as a file argument and through the prompt (standard input, closed at the end): \
         it must end with exit code 0 for every input that ends by itself (pre-filter: the library finishes it within the instruction budget), never by a panic or a signal, and must end when its input ends. \
         oracle: nederlang::eval returns a value or one of the five error kinds (or is stopped by the instruction budget); a panic, a hook event, a dead process or a front end that does not terminate is a violation. \
         non-trivial = input with >=3 tokens that is not a verbatim corpus member; distinct by text",
    );
    rep.assumptions.push("a run stopped by the instruction budget is 'a loop the program itself spells out'".into());
    // the same driver in the build `cargo build` produces (no tail calls, large frames, debug assertions), as a supervised
    // process of its own that works while this one does
    let plain = crate::report::current_profile() == "plain";
    let plain_run = if !plain && !ctx.inner && std::env::var("NLV_NO_INNER").is_err() {
        let (ctx2, mut sub) = (ctx.clone(), Report::new("C05", "exploration", ""));
        Some(std::thread::spawn(move || {
            crate::report::run_inner_opt(&ctx2, "plain", "C05", &mut sub, true);
            sub
        }))
    } else {
        None
    };
    let corpus = corpus_programs();
    rep.extra.insert("corpus_programs".into(), json!(corpus.len()));
    let t0 = std::time::Instant::now();
    let phase = |name: &str| {
        if std::env::var("NLV_PHASES").is_ok() {
            eprintln!("C05 phase {name} done at {:.1}s ({})", t0.elapsed().as_secs_f64(), crate::report::current_profile());
        }
    };
    // directed corpus
    for (family, text) in directed() {
        // (the unoptimised build leaves out the inputs whose only point is a table with more than 65 535 entries: an order of
        // magnitude slower there, and no different)
        if plain && family == "limits" {
            continue;
        }
        rep.eval();
        rep.count(&format!("directed:{family}"));
        rep.nontrivial(&text);
        let (o, c) = check_text(&text, 3_000_000);
        rep.count(&format!("stage:{}", stage(&o)));
        if let Some(c) = c {
            rep.violation(viol("directed", c, &text, &o));
        }
    }
    rep.sample(json!({"directed": "functie f() { 1 } f(1, 2)"}));
    phase("directed");
    // deep nesting on a thread with the default stack size
    // this thread only waits for the threads below
    crate::engine::note_current("done", "");
    let mut deep = deep_nesting();
    deep.extend(deep_combinations());
    for (family, text) in deep {
        rep.eval();
        rep.count("directed:deep-nesting");
        let tx = text.clone();
        let h = std::thread::Builder::new().stack_size(8 << 20).spawn(move || {
            crate::engine::install_gc_observer();
            crate::engine::SMALL_STACK.with(|s| s.set(true));
            let r = check_text(&tx, 3_000_000);
            crate::engine::note_current("done", "");
            r
        });
        let (o, c) = h.expect("spawn").join().expect("join");
        if let Some(c) = c {
            let mut v = viol("deep-nesting", c, &text, &o);
            v.case = json!({"text": text, "family": family});
            rep.violation(v);
        }
    }
    phase("deep-nesting");
    // inputs that are large in one dimension, on a thread with the default stack size; results are not inspected
    // (eight at a time, each on a thread of its own with the default stack size)
    let scale = std::sync::Arc::new(scale_inputs(plain));
    let lanes = 8usize;
    let mut handles = Vec::new();
    for lane in 0..lanes {
        let scale = scale.clone();
        handles.push(std::thread::spawn(move || {
            let mut results = Vec::new();
            for (k, (name, text, budget)) in scale.iter().enumerate() {
                if k % lanes != lane {
                    continue;
                }
                let (tx, budget) = (text.clone(), *budget);
                let started = std::time::Instant::now();
                let h = std::thread::Builder::new().stack_size(8 << 20).spawn(move || {
                    crate::engine::install_gc_observer();
                    crate::engine::SMALL_STACK.with(|s| s.set(true));
                    let o = crate::engine::run_eval_shallow(&tx, budget);
                    let c = classify(&o);
                    crate::engine::note_current("done", "");
                    (o, c)
                });
                let (o, c) = h.expect("spawn").join().expect("join");
                if std::env::var("NLV_SCALE_TIMES").is_ok() {
                    eprintln!("{name}: {:.1}s {}", started.elapsed().as_secs_f64(), stage(&o));
                }
                results.push((k, o, c));
            }
            results
        }));
    }
    for h in handles {
        for (k, o, c) in h.join().expect("scale lane") {
            let (name, text, budget) = &scale[k];
            rep.eval();
            rep.count("directed:scale");
            rep.nontrivial(name);
            rep.count(&format!("scale-stage:{}", stage(&o)));
            if let Some(c) = c {
                let mut v = viol("scale", c, text, &o);
                v.case = json!({"text": text, "family": name, "budget": budget, "shallow": true});
                v.observed = v.observed.chars().take(600).collect();
                rep.violation(v);
            }
        }
    }
    if std::env::var("NLV_C05_ONLY").as_deref() == Ok("scale") {
        return rep;
    }
    rep.sample(json!({"scale": "stel a = []; stel i = 0; zolang i < 200000 { a = [i, a]; i += 1 }; functie f() { 1 }; f()"}));
    phase("scale");
    // complete truncation of the corpus programs
    let mut truncs = 0u64;
    for prog in &corpus {
        let bytes = prog.as_bytes();
        let limit = bytes.len().min(1200);
        for cut in (0..=limit).step_by(if plain { 5 } else { 1 }) {
            let text = String::from_utf8_lossy(&bytes[..cut]).to_string();
            rep.eval();
            truncs += 1;
            if text.split_whitespace().count() >= 3 {
                rep.nontrivial(&text);
            }
            let (o, c) = check_text(&text, BUDGET);
            if cut % 37 == 0 {
                rep.count(&format!("stage:{}", stage(&o)));
            }
            if let Some(c) = c {
                rep.violation(viol("truncation", c, &text, &o));
            }
        }
    }
    rep.count_n(if plain { "truncations-every-5th-offset" } else { "truncations-complete" }, truncs);
    phase("truncations");
    // the unoptimised build runs a share of the generated inputs (it is an order of magnitude slower)
    let cases = if plain { ctx.pick(40_000u32, 600_000u32) } else { ctx.pick(300_000u32, 8_000_000u32) } / ctx.shards as u32;
    let seed = ctx.seed;
    let mut out = par_shards(ctx.shards, rep, move |shard, r| {
        let corpus = corpus_programs();
        let mut faulty = Profile::general();
        faulty.fault = 200;
        let profiles = vec![Profile::general(), Profile::calls(), Profile::alloc(), faulty];
        let fail = run_tapes(seed.wrapping_mul(256_203_221) + shard as u64, cases, 900, |tape, shrinking| {
            let (text, kind) = gen_input(tape, &corpus, &profiles);
            let (o, c) = check_text(&text, BUDGET);
            if !shrinking {
                r.eval();
                r.count(&format!("inputs:{kind}"));
                r.count(&format!("stage:{}", stage(&o)));
                if text.split_whitespace().count() >= 3 {
                    r.nontrivial(&text);
                    if r.nontrivial.len() % 9000 == 1 {
                        r.sample(json!({"kind": kind, "text": text.chars().take(400).collect::<String>(), "stage": stage(&o)}));
                    }
                }
            }
            match c {
                None => Ok(()),
                Some(c) => Err(c),
            }
        });
        if let Some((tape, _)) = fail {
            let (text, _) = gen_input(&tape, &corpus, &profiles);
            let (o, c) = check_text(&text, BUDGET);
            if let Some(c) = c {
                // minimise at the AST level when the text parses, otherwise by deleting characters
                let mut best = text.clone();
                if let Ok(prog) = crate::dbgparse::parse_source(&text) {
                    let small = crate::minimize::minimize(&prog, &mut |p| check_text(&print_canonical(p), BUDGET).1.as_deref() == Some(c.as_str()), 2000);
                    let s = print_canonical(&small);
                    if check_text(&s, BUDGET).1.as_deref() == Some(c.as_str()) {
                        best = s;
                    }
                } else {
                    best = minimize_text(&text, &mut |s| check_text(s, BUDGET).1.as_deref() == Some(c.as_str()));
                }
                let (o2, c2) = check_text(&best, BUDGET);
                match c2 {
                    Some(c2) => r.violation(viol("generated", c2, &best, &o2)),
                    None => r.violation(viol("generated", c, &text, &o)),
                }
            }
        }
    });
    phase("generated");
    if let Some(h) = plain_run {
        out.merge(h.join().expect("inner run"));
    }
    phase("plain-joined");
    if !plain && std::env::var("NLV_NO_CLI").is_err() {
        cli_driver(&mut out, ctx);
    }
    phase("command-line");
    out
}

// ---------------------------------------------------------------------------------------
// the command-line program (src/bin/nederlang.rs): a file argument, and the interactive prompt fed through a pipe

fn cli_exe() -> std::path::PathBuf {
    crate::report::verif_dir().join("work/cli-target/debug/nederlang")
}

/// how a run of the command-line program ended
#[derive(Debug, Clone, PartialEq)]
enum CliEnd {
    Exit(i32),
    Signal(i32),
    StillRunning,
}

/// Runs the program with the given arguments and standard input (closed after the text); waits at most `limit`
fn cli_run(args: &[&str], stdin: &[u8], limit: std::time::Duration) -> (CliEnd, String) {
    use std::io::{Read, Write};
    use std::os::unix::process::{CommandExt, ExitStatusExt};
    // under coreutils' timeout, so that the program cannot outlive a harness that is killed while it waits; both in a
    // process group of their own, which is killed as a whole when the limit is reached
    let mut child = match std::process::Command::new("timeout")
        .process_group(0)
        .arg("--signal=KILL")
        .arg("150")
        .arg(cli_exe())
        .args(args)
        .stdin(std::process::Stdio::piped())
        .stdout(std::process::Stdio::null())
        .stderr(std::process::Stdio::piped())
        .spawn()
    {
        Ok(c) => c,
        Err(e) => {
            eprintln!("C05: cannot run {}: {e} (the check script builds it)", cli_exe().display());
            std::process::exit(2)
        }
    };
    if let Some(mut si) = child.stdin.take() {
        let _ = si.write_all(stdin);
        // dropping the handle closes the pipe: end of input
    }
    let mut err = child.stderr.take();
    let reader = std::thread::spawn(move || {
        let mut text = Vec::new();
        if let Some(e) = err.as_mut() {
            let _ = e.take(1 << 16).read_to_end(&mut text);
            // keep draining so that the child never blocks on a full pipe
            let _ = std::io::copy(e, &mut std::io::sink());
        }
        String::from_utf8_lossy(&text).to_string()
    });
    let started = std::time::Instant::now();
    let end = loop {
        match child.try_wait() {
            Ok(Some(st)) => break st.code().map(CliEnd::Exit).unwrap_or_else(|| CliEnd::Signal(st.signal().unwrap_or(0))),
            Ok(None) => {
                if started.elapsed() > limit {
                    let _ = std::process::Command::new("kill").arg("-KILL").arg("--").arg(format!("-{}", child.id())).status();
                    let _ = child.kill();
                    let _ = child.wait();
                    break CliEnd::StillRunning;
                }
                std::thread::sleep(std::time::Duration::from_millis(2));
            }
            Err(_) => break CliEnd::Signal(0),
        }
    };
    let text = reader.join().unwrap_or_default();
    (end, text)
}

/// verdict on one finite input (every line of which the library evaluates within the instruction budget)
fn cli_verdict(mode: &str, text: &str) -> Result<(), (String, String)> {
    cli_verdict_bytes(mode, text.as_bytes())
}

/// the input as bytes: a file or a pipe can hold anything, also what is not UTF-8
fn cli_verdict_bytes(mode: &str, text: &[u8]) -> Result<(), (String, String)> {
    let file = crate::report::verif_dir().join(format!("work/cli-input-{}-{:?}.nl", std::process::id(), std::thread::current().id()).replace(['(', ')'], ""));
    let run = |limit: u64| -> (CliEnd, String) {
        if mode == "file" {
            let _ = std::fs::write(&file, text);
            let r = cli_run(&[file.to_str().unwrap_or("")], b"", std::time::Duration::from_secs(limit));
            let _ = std::fs::remove_file(&file);
            r
        } else {
            cli_run(&[], text, std::time::Duration::from_secs(limit))
        }
    };
    let (mut end, mut err) = run(10);
    if end == CliEnd::StillRunning {
        // once more with a long limit: only then it counts
        let r = run(60);
        end = r.0;
        err = r.1;
    }
    let short: String = err.lines().filter(|l| l.contains("panicked") || l.contains("overflow") || l.contains("Error")).take(2).collect::<Vec<_>>().join(" | ").chars().take(300).collect();
    match end {
        // (0 is what the program uses today; any small code is an orderly end - a panic is 101, a signal shows as such)
        CliEnd::Exit(c) if (0..100).contains(&c) && !err.contains("panicked at") => Ok(()),
        CliEnd::Exit(c) if c > 128 => Err((format!("cli-{mode}:signal"), format!("signal {}: {short}", c - 128))),
        CliEnd::Exit(c) => Err((format!("cli-{mode}:exit-{c}"), format!("exit code {c}: {short}"))),
        CliEnd::Signal(s) => Err((format!("cli-{mode}:signal"), format!("signal {s}: {short}"))),
        CliEnd::StillRunning => Err((format!("cli-{mode}:does-not-end"), "still running 60 s after its (finite) input ended".into())),
    }
}

/// every line finishes within the budget when a retained compiler and machine evaluate the lines one by one (what the prompt does)
fn lines_finish(text: &str) -> bool {
    let mut s = crate::engine::session_begin();
    let mut ok = true;
    for l in text.split('\n') {
        let o = s.line(l, 300_000);
        if o.outcome == Outcome::Budget {
            ok = false;
            break;
        }
    }
    s.end();
    crate::engine::install_gc_observer();
    ok
}

fn cli_driver(rep: &mut Report, ctx: &Ctx) {
    let corpus = corpus_programs();
    let mut faulty = Profile::general();
    faulty.fault = 200;
    let profiles = vec![Profile::general(), Profile::calls(), faulty];
    // inputs: the directed corpus, lines of generated sessions, generated inputs of every kind
    let mut inputs: Vec<(String, String)> = directed().into_iter().filter(|(f, _)| f != "limits" && f != "recursion").map(|(f, t)| (format!("directed:{f}"), t)).collect();
    inputs.push(("directed:empty".into(), String::new()));
    inputs.push(("directed:no-final-newline".into(), "1 + 1".into()));
    inputs.push(("directed:blank-lines".into(), "\n\n\n".into()));
    inputs.push(("directed:error-then-more".into(), "1 +\nonbekend\n1 / 0\nstel a = 2\na + 1\n".into()));
    let n = ctx.pick(1_200u32, 20_000u32);
    let mut runner = crate::tape::runner(ctx.seed.wrapping_mul(472_882_027), 1);
    {
        use proptest::prelude::RngCore;
        for k in 0..n {
            let mut tape = vec![0u8; 400];
            runner.rng().fill_bytes(&mut tape);
            if k % 3 == 0 {
                let lines = crate::props::c17::gen_session(&tape);
                let text: String = lines.iter().filter(|l| l.cut.is_none()).map(|l| l.text() + "\n").collect();
                inputs.push(("session-lines".into(), text));
            } else {
                let (text, kind) = gen_input(&tape, &corpus, &profiles);
                inputs.push((format!("generated:{kind}"), text));
            }
        }
    }
    // inputs that are not UTF-8 (a file or a pipe can hold anything)
    let mut raw: Vec<Vec<u8>> = vec![b"\xff\xfe 1".to_vec(), b"1\n\xff\n2\n".to_vec(), b"\xc3(".to_vec(), b"print(1)\n\x80".to_vec(), b"\"\xed\xa0\x80\"".to_vec(), vec![0xf8, 0x88, 0x80, 0x80, 0x80]];
    {
        use proptest::prelude::RngCore;
        for _ in 0..ctx.pick(60u32, 1_000u32) {
            let mut b = vec![0u8; 1 + (runner.rng().next_u32() % 40) as usize];
            runner.rng().fill_bytes(&mut b);
            // mostly text with a few arbitrary bytes in it
            if runner.rng().next_u32() % 2 == 0 {
                let mut t = b"stel a = 1\nprint(a)\n".to_vec();
                let at = (runner.rng().next_u32() as usize) % t.len();
                t.splice(at..at, b.iter().take(3).copied());
                b = t;
            }
            raw.push(b);
        }
    }
    for bytes in raw.iter().filter(|b| std::str::from_utf8(b).is_err()) {
        for mode in ["file", "prompt"] {
            if mode == "prompt" && !lines_finish(&String::from_utf8_lossy(bytes)) {
                continue;
            }
            rep.eval();
            rep.count(&format!("cli-{mode}"));
            rep.count("cli-input:not-utf8");
            if let Err((class, observed)) = cli_verdict_bytes(mode, bytes) {
                rep.violation(Violation {
                    property: "C05".into(),
                    driver: "command-line".into(),
                    class: format!("{class}:not-utf8"),
                    case: json!({"kind": "cli", "mode": mode, "bytes": bytes}),
                    expected: "the program reports input it cannot read and ends in an orderly way".into(),
                    observed,
                });
                break;
            }
        }
        if rep.violations.iter().filter(|v| v.class.ends_with(":not-utf8")).count() >= 2 {
            break;
        }
    }
    let inputs = std::sync::Arc::new(inputs);
    let shards = ctx.shards;
    let base = Report::new("C05", "exploration", "");
    // a defect of the program itself (it never ends at the end of input, say) fails every input: two failures per mode are
    // enough, the rest of that mode is counted as not run
    let failures = std::sync::Arc::new([std::sync::atomic::AtomicUsize::new(0), std::sync::atomic::AtomicUsize::new(0)]);
    let sub = par_shards(shards, base, {
        let inputs = inputs.clone();
        let failures = failures.clone();
        move |shard, r| {
            for (i, (kind, text)) in inputs.iter().enumerate() {
                if i % shards != shard {
                    continue;
                }
                for (mi, mode) in ["file", "prompt"].into_iter().enumerate() {
                    if failures[mi].load(std::sync::atomic::Ordering::Relaxed) >= 2 {
                        r.count("cli:not-run-after-failures");
                        continue;
                    }
                    // only inputs that end by themselves: the library finishes them (as one program / line by line) within the budget
                    let finite = if mode == "file" { check_text(text, 300_000).0.outcome != Outcome::Budget } else { lines_finish(text) };
                    if !finite {
                        r.count("cli:skipped-may-not-terminate");
                        continue;
                    }
                    // the prompt reads lines: invalid UTF-8 cannot come out of a String, NUL bytes are fine
                    crate::engine::note_current("done", "");
                    r.eval();
                    r.count(&format!("cli-{mode}"));
                    r.count(&format!("cli-input:{}", kind.split(':').next().unwrap_or("")));
                    if text.split_whitespace().count() >= 3 {
                        r.nontrivial(&format!("cli-{mode}:{text}"));
                    }
                    if let Err((class, observed)) = cli_verdict(mode, text) {
                        failures[mi].fetch_add(1, std::sync::atomic::Ordering::Relaxed);
                        r.violation(Violation {
                            property: "C05".into(),
                            driver: "command-line".into(),
                            class,
                            case: json!({"kind": "cli", "mode": mode, "text": text}),
                            expected: "the program prints a value or an error for every input and ends with exit code 0 when its input ends".into(),
                            observed,
                        });
                    }
                }
            }
        }
    });
    rep.merge(sub);
    rep.sample(json!({"cli-prompt": "1 +\nonbekend\n1 / 0\nstel a = 2\na + 1\n", "expects": "five answers or errors, then the end of input ends the program (exit code 0)"}));
}

/// delta debugging on characters: remove chunks while the failure persists
pub fn minimize_text(text: &str, fails: &mut dyn FnMut(&str) -> bool) -> String {
    let mut cur: Vec<char> = text.chars().collect();
    let mut chunk = (cur.len() / 2).max(1);
    let mut tests = 0;
    while chunk >= 1 && tests < 3000 {
        let mut i = 0;
        let mut progressed = false;
        while i < cur.len() && tests < 3000 {
            let end = (i + chunk).min(cur.len());
            let cand: String = cur[..i].iter().chain(cur[end..].iter()).collect();
            tests += 1;
            if fails(&cand) {
                cur = cand.chars().collect();
                progressed = true;
            } else {
                i += chunk;
            }
        }
        if !progressed {
            if chunk == 1 {
                break;
            }
            chunk /= 2;
        }
    }
    cur.into_iter().collect()
}
