//! C10 — how the compiler chooses to implement an expression is unobservable (metamorphic).
use crate::ast::*;
use crate::bytecode::{opcode_histogram, Table};
use crate::engine::*;
use crate::gen::*;
use crate::printer::print_canonical;
use crate::report::*;
use crate::tape::{run_tapes, Tape};
use crate::transform::*;
use serde_json::{json, Value};

const BUDGET: u64 = 400_000;

fn run(src: &str) -> Obs {
    run_eval(src, &RunCfg { budget: BUDGET, audit_heap: true })
}

type Fail = (String, Value, String, String);

struct Variant {
    name: String,
    prog: BlockStmt,
}

fn variants(prog: &BlockStmt, t: &mut Tape) -> Vec<Variant> {
    let mut out = Vec::new();
    out.push(Variant { name: "T1".into(), prog: t1_wrap(prog) });
    let n2 = count_int_operand_sites(prog);
    if n2 > 0 {
        if let Some(p) = t2_literal_to_variable(prog, t.below(n2), "k_vers") {
            out.push(Variant { name: "T2".into(), prog: p });
        }
    }
    let n3 = count_mirror_sites(prog);
    if n3 > 0 {
        if let Some(p) = t3_mirror(prog, t.below(n3)) {
            out.push(Variant { name: "T3".into(), prog: p });
        }
    }
    let mut lits = collect_literals(prog);
    lits.extend([int(0), int(1), int(7), float(2.5), string("a"), string("hallo"), int(65_536)]);
    let k = 1 + t.below(4);
    let chosen: Vec<Expr> = (0..k).map(|_| t.pick(&lits).clone()).collect();
    out.push(Variant { name: "T4".into(), prog: t4_prepend(prog, &chosen) });
    // a random combination, applied in the order T4, T2, T3, T1
    let mut p = prog.clone();
    let mut name = String::from("combo");
    if t.maybe(128) {
        p = t4_prepend(&p, &chosen);
        name.push_str("+T4");
    }
    for round in 0..2 {
        let n = count_int_operand_sites(&p);
        if n > 0 && t.maybe(150) {
            if let Some(q) = t2_literal_to_variable(&p, t.below(n), &format!("k_combo{round}")) {
                p = q;
                name.push_str("+T2");
            }
        }
    }
    let n = count_mirror_sites(&p);
    if n > 0 && t.maybe(150) {
        if let Some(q) = t3_mirror(&p, t.below(n)) {
            p = q;
            name.push_str("+T3");
        }
    }
    if t.maybe(150) {
        p = t1_wrap(&p);
        name.push_str("+T1");
    }
    if name != "combo" {
        out.push(Variant { name, prog: p });
    }
    out
}

fn compare(kind: &str, src_p: &str, p: &Obs, src_t: &str) -> Result<(), Fail> {
    let t = run(src_t);
    if t.outcome == Outcome::Budget {
        return Ok(());
    }
    if !p.same_as(&t) || !t.events.is_empty() {
        let fam = kind.split('+').next().unwrap_or(kind);
        let fam = if fam == "combo" { "combo" } else { fam };
        return Err((format!("{fam}:observation-changed"), json!({"kind": kind, "src_p": src_p, "src_t": src_t}), p.render(), t.render()));
    }
    Ok(())
}

struct Counters {
    variants: u64,
    opcode_diff: u64,
    fused_one_side: u64,
}

fn meta_check(prog: &BlockStmt, t: &mut Tape, table: &Table, c: Option<&mut Counters>, nontriv: &mut Vec<String>) -> Result<(), Fail> {
    let src_p = print_canonical(prog);
    let p = run(&src_p);
    if p.outcome == Outcome::Budget || p.outcome.is_crash() || !p.events.is_empty() {
        return Ok(());
    }
    let hp = opcode_histogram(&src_p, table);
    let mut cc = c;
    for v in variants(prog, t) {
        let src_t = print_canonical(&v.prog);
        if let Some(c) = cc.as_deref_mut() {
            c.variants += 1;
            let ht = opcode_histogram(&src_t, table);
            if let (Some(a), Some(b)) = (&hp, &ht) {
                // the multiset of opcodes differs (beyond the statements T4 adds): e.g. Global vs Local family, fused vs generic
                let strip = |h: &std::collections::BTreeMap<String, usize>| {
                    let mut h = h.clone();
                    h.remove("Const");
                    h.remove("Pop");
                    h
                };
                if strip(a) != strip(b) {
                    c.opcode_diff += 1;
                    nontriv.push(src_t.clone());
                    let fused = |h: &std::collections::BTreeMap<String, usize>| h.iter().filter(|(k, _)| k.ends_with("LocalConst")).map(|(_, v)| *v).sum::<usize>();
                    if fused(a) != fused(b) {
                        c.fused_one_side += 1;
                    }
                }
            }
        }
        compare(&v.name, &src_p, &p, &src_t)?;
    }
    Ok(())
}

pub fn replay(case: &Value) -> Option<Violation> {
    let kind = case.get("kind")?.as_str()?;
    let src_p = case.get("src_p")?.as_str()?;
    let p = run(src_p);
    compare(kind, src_p, &p, case.get("src_t")?.as_str()?).err().map(|f| Violation {
        property: "C10".into(),
        driver: "replay".into(),
        class: f.0,
        case: case.clone(),
        expected: f.2,
        observed: f.3,
    })
}

pub fn run_check(ctx: &Ctx) -> Report {
    let mut rep = Report::new(
        "C10",
        "exploration",
        "closed programs (function bodies mention only their parameters, locals and builtins) compared with their variants under T1 (top level moved into a function body: globals become locals), \
         T2 (an integer literal operand replaced by a fresh variable), T3 (`c op x` mirrored to `x op' c`), T4 (statements mentioning the same and other literals prepended) and random combinations; \
         the observation (value graph, output, error kind) must be identical. No reference interpreter involved. \
         non-trivial = the opcode multisets of the two bytecodes differ (Global vs Local family, fused vs generic, other constants); distinct by variant text",
    );
    rep.assumptions.push("U10: string literals that are modified in place stay unique in the program (T4 does not duplicate them)".into());
    let cases = ctx.pick(60_000u32, 2_000_000u32) / ctx.shards as u32;
    let seed = ctx.seed;
    par_shards(ctx.shards, rep, move |shard, r| {
        let profile = Profile::closed();
        let table = Table::load();
        let mut c = Counters { variants: 0, opcode_diff: 0, fused_one_side: 0 };
        let fail = run_tapes(seed.wrapping_mul(32_452_843) + shard as u64, cases, 700, |tape, shrinking| {
            let (prog, _, used) = gen_program_used(tape, &profile);
            let mut t = Tape::new(&tape[used.min(tape.len())..]);
            let mut nt = Vec::new();
            let res = meta_check(&prog, &mut t, &table, if shrinking { None } else { Some(&mut c) }, &mut nt);
            if !shrinking {
                r.eval();
                for s in nt {
                    r.nontrivial(&s);
                    if r.nontrivial.len() % 2500 == 2 {
                        r.sample(json!({"variant": s}));
                    }
                }
            }
            res.map_err(|f| f.0)
        });
        r.count_n("variants", c.variants);
        r.count_n("variants-with-different-opcodes", c.opcode_diff);
        r.count_n("variants-with-fused-opcode-on-one-side", c.fused_one_side);
        r.evaluations += c.variants;
        if let Some((tape, _)) = fail {
            let (prog, _, used) = gen_program_used(&tape, &profile);
            let lt: Vec<u8> = tape[used.min(tape.len())..].to_vec();
            let mut nt = Vec::new();
            if let Err(f) = meta_check(&prog, &mut Tape::new(&lt), &table, None, &mut nt) {
                let cls = f.0.clone();
                let small = crate::minimize::minimize(
                    &prog,
                    &mut |p| matches!(meta_check(p, &mut Tape::new(&lt), &table, None, &mut Vec::new()), Err(g) if g.0 == cls),
                    1500,
                );
                if let Err(f) = meta_check(&small, &mut Tape::new(&lt), &table, None, &mut nt) {
                    r.violation(Violation { property: "C10".into(), driver: "metamorphic".into(), class: f.0, case: f.1, expected: f.2, observed: f.3 });
                }
            }
        }
    })
}
