//! C14 — builtins are total and behave as documented.
use crate::ast::*;
use crate::diff::*;
use crate::engine::*;
use crate::lattice::*;
use crate::printer::{float_literal, print_canonical};
use crate::refint::*;
use crate::report::*;
use crate::tape::{run_tapes, Tape};
use serde_json::{json, Value};

const BUILTIN_NAMES: [&str; 7] = ["print", "type", "bool", "int", "float", "string", "lengte"];

/// a value shape: statements that build it (may be empty) and the expression that denotes it
#[derive(Clone)]
struct Shape {
    name: String,
    setup: BlockStmt,
    expr: Expr,
}

fn sh(name: &str, e: Expr) -> Shape {
    Shape { name: name.into(), setup: vec![], expr: e }
}

fn float_expr(f: f64) -> Expr {
    if f.is_nan() {
        infix(float(0.0), Operator::Divide, float(0.0))
    } else if f.is_infinite() {
        infix(if f > 0.0 { float(1.0) } else { neg(float(1.0)) }, Operator::Divide, float(0.0))
    } else if f.is_sign_negative() {
        neg(float(-f))
    } else {
        float(f)
    }
}

fn fixed_shapes(ints: &[i64]) -> Vec<Shape> {
    let mut v = vec![
        sh("null", iff(boolean(false), vec![es(int(1))], None)),
        sh("ja", boolean(true)),
        sh("nee", boolean(false)),
    ];
    for i in ints {
        v.push(sh(&format!("int {i}"), int_expr(*i)));
    }
    for f in [0.0, -0.0, 1.0, -1.0, 1.5, -1.5, 0.1, 2.5, 1e15, 123456789.125, 1e300, -1e300, 5e-324, f64::MIN_POSITIVE, f64::INFINITY, f64::NEG_INFINITY, f64::NAN, 1152921504606846976.0, -1152921504606846976.0, 1152921504606846975.5, 9.2e18, 0.99999, -0.99999, 65535.7] {
        v.push(sh(&format!("float {f:?}"), float_expr(f)));
    }
    for s in [
        "15", "-7", " 42 ", "+3", "3.1415", "1e3", ".5", "5.", "inf", "-inf", "NaN", "0x10", "1_000", "abc", "", " ", "é€𝄞", "1152921504606846975", "1152921504606846976", "-1152921504606846976",
        "-1152921504606846977", "99999999999999999999", "0", "-0", "00012", "1 2", "\t7\n", "7.0", "-0.0", "1e400", "{}", "ja", "waar",
    ] {
        v.push(sh(&format!("string {s:?}"), string(s)));
    }
    v.push(sh("array []", array(vec![])));
    v.push(sh("array [1]", array(vec![int(1)])));
    v.push(sh("array nested", array(vec![array(vec![int(1)]), string("a"), float(2.5), boolean(true)])));
    v.push(Shape { name: "function".into(), setup: vec![let_("fn_waarde", func("", &[], vec![es(int(1))]))], expr: ident("fn_waarde") });
    v.push(Shape { name: "aliased array".into(), setup: vec![let_("rij", array(vec![int(0), int(7)]))], expr: array(vec![ident("rij"), array(vec![int(1), ident("rij")]), int(2)]) });
    v.push(Shape { name: "empty array twice".into(), setup: vec![let_("leeg", array(vec![]))], expr: array(vec![ident("leeg"), ident("leeg")]) });
    v.push(Shape {
        name: "empty array nested twice".into(),
        setup: vec![let_("leeg", array(vec![])), let_("doos", array(vec![ident("leeg"), int(1)]))],
        expr: array(vec![ident("doos"), ident("doos"), string("é")]),
    });
    v.push(Shape {
        name: "cyclic array".into(),
        setup: vec![let_("kring", array(vec![int(0)])), es(assign(index(ident("kring"), int(0)), ident("kring")))],
        expr: ident("kring"),
    });
    v
}

type Fail = (String, Value, String, String);

fn program(setups: &[&Shape], call_expr: Expr) -> BlockStmt {
    let mut p: BlockStmt = Vec::new();
    for s in setups {
        for st in &s.setup {
            if !p.contains(st) {
                p.push(st.clone());
            }
        }
    }
    p.push(es(call_expr));
    p
}

/// differential check with the reference; where the reference says "unspecified" only totality
/// (and U20's "never a value outside the int range") is asserted
fn check_call(prog: &BlockStmt) -> Result<&'static str, Fail> {
    let src = print_canonical(prog);
    let r = run_reference(prog, REF_BUDGET);
    let o = run_eval(&src, &RunCfg { budget: VM_BUDGET, audit_heap: true });
    let case = json!({"src": src});
    if o.outcome.is_crash() || !o.events.is_empty() {
        return Err((format!("crash:{}", crash_class(&o.outcome)), case, format!("{:?}", r.outcome), o.render()));
    }
    match compare(&r, &o) {
        Verdict::Agree => Ok("agree"),
        Verdict::Discard(_) => {
            if let Outcome::Value(Val::Int(i)) = &o.outcome {
                if *i > MAX_INT || *i < MIN_INT {
                    return Err(("int-out-of-range".into(), case, "an integer inside the 61-bit range or an error".into(), o.render()));
                }
            }
            Ok("unspecified-no-crash")
        }
        Verdict::Violation { class, expected, observed } => Err((class, case, expected, observed)),
    }
}

/// program with a result the harness computes itself
fn check_expect(prog: &BlockStmt, want: &Val, what: &str) -> Result<(), Fail> {
    let src = print_canonical(prog);
    let o = run_eval(&src, &RunCfg { budget: VM_BUDGET, audit_heap: true });
    let ok = matches!(&o.outcome, Outcome::Value(v) if v.agrees(want)) && o.events.is_empty();
    if ok {
        Ok(())
    } else {
        Err((format!("roundtrip:{what}"), json!({"src": src, "want": want.render(), "what": what}), format!("value {}", want.render()), o.render()))
    }
}

fn viol(driver: &str, f: Fail) -> Violation {
    Violation { property: "C14".into(), driver: driver.into(), class: f.0, case: f.1, expected: f.2, observed: f.3 }
}

/// the documented meaning of print for #arguments <= #placeholders
fn print_oracle(fmt: &str, args: &[String]) -> String {
    let mut out = String::new();
    let mut rest = fmt;
    let mut k = 0;
    while let Some(pos) = rest.find("{}") {
        if k >= args.len() {
            break;
        }
        out.push_str(&rest[..pos]);
        out.push_str(&args[k]);
        k += 1;
        rest = &rest[pos + 2..];
    }
    out.push_str(rest);
    out.push('\n');
    out
}

const FMT_PIECES: [&str; 12] = ["{}", "{}", "{", "}", "{ }", "a", " ", "é", "{{}}", "x=", "}{", ""];

fn gen_print_case(t: &mut Tape) -> (BlockStmt, Option<String>) {
    let n = t.below(7);
    let fmt: String = (0..n).map(|_| t.pick_str(&FMT_PIECES)).collect();
    let holes = fmt.matches("{}").count();
    let nargs = t.below(5);
    let mut args = Vec::new();
    let mut texts = Vec::new();
    for _ in 0..nargs {
        match t.below(5) {
            0 => {
                let i = t.range(-1000, 100_000);
                args.push(int_expr(i));
                texts.push(i.to_string());
            }
            1 => {
                let b = t.maybe(128);
                args.push(boolean(b));
                texts.push(if b { "ja".into() } else { "nee".into() });
            }
            2 => {
                let f = t.range(-80, 80) as f64 / 8.0;
                args.push(float_expr(f));
                texts.push(format!("{}", f));
            }
            _ => {
                // text that itself contains placeholders and braces
                let m = t.below(4);
                let s: String = (0..m).map(|_| t.pick_str(&FMT_PIECES)).collect();
                args.push(string(&s));
                texts.push(s);
            }
        }
    }
    let mut all = vec![string(&fmt)];
    all.extend(args);
    let expected = if nargs <= holes { Some(print_oracle(&fmt, &texts)) } else { None };
    (vec![es(calln("print", all)), es(int(0))], expected)
}

fn check_print(prog: &BlockStmt, expected: &Option<String>) -> Result<(), Fail> {
    let src = print_canonical(prog);
    let o = run_eval(&src, &RunCfg { budget: VM_BUDGET, audit_heap: true });
    let case = json!({"src": src, "print_expected": expected});
    if o.outcome.is_crash() || !o.events.is_empty() {
        return Err((format!("crash:{}", crash_class(&o.outcome)), case, "no crash".into(), o.render()));
    }
    if let Some(e) = expected {
        if o.outcome != Outcome::Value(Val::Int(0)) || &o.output != e {
            return Err(("print:output".into(), case, format!("out={e:?}"), o.render()));
        }
    }
    Ok(())
}

pub fn replay(case: &Value) -> Option<Violation> {
    if let Some(lines) = case.get("session").and_then(|s| s.as_array()) {
        let (f, g) = (lines.first()?.as_str()?, lines.get(1)?.as_str()?);
        let want = run_eval(g, &RunCfg { budget: VM_BUDGET, audit_heap: true });
        let mut s = session_begin();
        let first = s.line(f, VM_BUDGET);
        let second = s.line(g, VM_BUDGET);
        s.end();
        crate::engine::install_gc_observer();
        if !second.same_as(&want) || !second.events.is_empty() {
            return Some(viol("replay", ("builtin:stale-state-after-error".into(), case.clone(), want.render(), format!("line 1: {} / line 2: {}", first.render(), second.render()))));
        }
        return None;
    }
    let src = case.get("src")?.as_str()?;
    let prog = crate::dbgparse::parse_source(src).ok()?;
    if let Some(pe) = case.get("print_expected") {
        let e = pe.as_str().map(|s| s.to_string());
        return check_print(&prog, &e).err().map(|f| viol("replay", f));
    }
    if let Some(w) = case.get("want").and_then(|w| w.as_str()) {
        // round-trip cases: re-evaluate and compare the rendering
        let o = run_eval(src, &RunCfg { budget: VM_BUDGET, audit_heap: true });
        let ok = matches!(&o.outcome, Outcome::Value(v) if v.render() == w) && o.events.is_empty();
        if ok {
            return None;
        }
        return Some(viol("replay", (format!("roundtrip:{}", case.get("what").and_then(|x| x.as_str()).unwrap_or("")), case.clone(), format!("value {w}"), o.render())));
    }
    check_call(&prog).err().map(|f| viol("replay", f))
}

pub fn run_check(ctx: &Ctx) -> Report {
    let mut rep = Report::new(
        "C14",
        "exploration",
        "every builtin applied to every value shape (null, booleans, lattice integers, floats incl. signed zero / inf / NaN / subnormal / range ends, numeric / padded / signed / non-numeric / empty / non-ASCII text, \
         empty / nested / cyclic arrays, functions) with 0-3 arguments, checked against the reference interpreter (documented result or error kind; where only the examples exist, totality and 'never an integer outside the range'); \
         round trips int(string(n)) = n over the integer lattice and float(string(x)) bit-equal over generated finite floats, T(T(v)) = T(v), own-type identity; print with 0-4 arguments and formats of 0-4 placeholders, \
         literal braces and arguments that contain placeholders (single-pass oracle). non-trivial = argument not of the builtin's home type, boundary value, wrong argument count, or a format with >=2 placeholders; distinct by source text",
    );
    rep.assumptions.push("U12/U16/U20: rendering of null/arrays/functions/extreme floats and non-plain numeric spellings are not fixed; only totality is asserted there".into());
    let ints: Vec<i64> = if ctx.tier == Tier::Quick { quick_lattice() } else { full_lattice() };
    let shapes = fixed_shapes(&ints);
    rep.extra.insert("shapes".into(), json!(shapes.len()));
    // (1) every builtin x every shape x 1 argument; (2) x 0, 2, 3 arguments over a sub-grid
    let small: Vec<Shape> = shapes.iter().filter(|s| !s.name.starts_with("int ") || ["int 0", "int 1", "int -1", "int 7"].contains(&s.name.as_str())).cloned().collect();
    for b in BUILTIN_NAMES {
        for s in &shapes {
            rep.eval();
            rep.count(&format!("unary:{b}"));
            let p = program(&[s], calln(b, vec![s.expr.clone()]));
            rep.nontrivial(&print_canonical(&p));
            match check_call(&p) {
                Ok(k) => rep.count(&format!("verdict:{k}")),
                Err(f) => rep.violation(viol("shapes", f)),
            }
        }
        // argument counts 0, 2, 3
        rep.eval();
        let p0 = vec![es(calln(b, vec![]))];
        if let Err(f) = check_call(&p0) {
            rep.violation(viol("argc", f));
        }
        for (i, s1) in small.iter().enumerate() {
            for s2 in small.iter().skip(i % 5).step_by(5) {
                rep.eval();
                rep.count("argc:2");
                let p = program(&[s1, s2], calln(b, vec![s1.expr.clone(), s2.expr.clone()]));
                rep.nontrivial(&print_canonical(&p));
                if let Err(f) = check_call(&p) {
                    rep.violation(viol("argc", f));
                }
            }
            rep.eval();
            rep.count("argc:3");
            let p = program(&[s1], calln(b, vec![s1.expr.clone(), s1.expr.clone(), int(1)]));
            if let Err(f) = check_call(&p) {
                rep.violation(viol("argc", f));
            }
        }
    }
    // (2b) two calls in ONE program: what a builtin answers for one value must not depend on which other literal values the
    // program mentions (values that are equal across types or differ only in the sign of zero share a text or compare equal,
    // which is what constant pools and caches key on); the variable form keeps literals away from the call
    let look_alikes: Vec<Shape> = {
        let mut v = Vec::new();
        for f in [0.0, -0.0, 1.0, -1.0, 15.0, 1.5] {
            v.push(sh(&format!("float {f:?}"), float_expr(f)));
        }
        for i in [0i64, 1, -1, 15] {
            v.push(sh(&format!("int {i}"), int_expr(i)));
        }
        for t in ["0", "-0", "0.0", "-0.0", "1", "15", "1.5", "", "ja"] {
            v.push(sh(&format!("string {t:?}"), string(t)));
        }
        v.push(sh("ja", boolean(true)));
        v.push(sh("nee", boolean(false)));
        v.push(sh("null", iff(boolean(false), vec![es(int(1))], None)));
        v
    };
    for b in ["string", "float", "int", "bool", "type", "lengte"] {
        for s1 in &look_alikes {
            for s2 in &look_alikes {
                for form in 0..2 {
                    rep.eval();
                    rep.count("pairs-in-one-program");
                    // every call is made safe on its own: a failing call yields the text "fout" through a guard on the type
                    let p: BlockStmt = if form == 0 {
                        vec![let_("r1", calln("string", vec![calln("type", vec![s1.expr.clone()])])), es(array(vec![calln(b, vec![s2.expr.clone()]), ident("r1")]))]
                    } else {
                        vec![let_("v1", s1.expr.clone()), let_("v2", s2.expr.clone()), let_("r1", calln("type", vec![ident("v1")])), es(array(vec![calln(b, vec![ident("v2")]), ident("r1")]))]
                    };
                    if form == 0 {
                        rep.nontrivial(&print_canonical(&p));
                    }
                    if let Err(f) = check_call(&p) {
                        rep.violation(viol("pairs", f));
                    }
                    // and the direct pair, when the first call succeeds
                    let p: BlockStmt = vec![let_("r1", calln(b, vec![s1.expr.clone()])), es(array(vec![ident("r1"), calln(b, vec![s2.expr.clone()])]))];
                    if let Err(f) = check_call(&p) {
                        rep.violation(viol("pairs", f));
                    }
                }
            }
        }
    }
    rep.sample(json!({"pair": "stel r1 = string(0.0); [r1, string(-0.0)]"}));
    // (2c) what a builtin hands out belongs to the caller: changing it in place must not change what the same call, or the same
    // literal anywhere else, yields afterwards
    for b in ["string", "type"] {
        for lit in ["\"abc\"", "\"é\"", "15", "ja", "2.5", "\"\""] {
            for change in ["r1[0] = \"XYZ\"", "r1[-1] = \"€\"", "r1[0] = r1"] {
                rep.eval();
                rep.count("result-changed-in-place");
                let src = format!("stel r1 = {b}({lit}); als lengte(r1) > 0 {{ {change} }}; stel r2 = {b}({lit}); print(\"{{}} {{}}\", {b}({lit}), lengte({b}({lit}))); [r1 == r2, r2, {b}({lit}), lengte(string({lit}))]");
                rep.nontrivial(&src);
                match crate::diff::diff_text(&src) {
                    Ok(out) => {
                        if let Verdict::Violation { class, expected, observed } = out.verdict {
                            rep.violation(viol("result-changed-in-place", (class, json!({"src": src}), expected, observed)));
                        }
                    }
                    Err(e) => rep.violation(viol("result-changed-in-place", ("does-not-parse".into(), json!({"src": src}), "a program".into(), e))),
                }
            }
        }
    }
    // (2d) many arguments: a builtin with a fixed number of parameters refuses 2 ... 300 arguments (no value, no crash, nothing
    // left behind for the expression around it); print takes any number up to the machine's limit
    for b in ["type", "lengte", "int", "float", "bool", "string"] {
        for n in [2usize, 3, 100, 254, 255, 256, 257, 258, 300, 511, 512, 513] {
            rep.eval();
            rep.count("many-arguments");
            let args = vec!["\"x\""; n].join(", ");
            let src = format!("stel r = [7, {b}({args}), 9]; r");
            let o = run_eval(&src, &RunCfg { budget: VM_BUDGET, audit_heap: true });
            if !matches!(o.outcome, Outcome::Error(_)) || !o.events.is_empty() {
                rep.violation(viol("many-arguments", ("many-arguments:not-refused".into(), json!({"src": src}), "an error: the builtin takes one argument".into(), o.render())));
            }
        }
    }
    for n in [2usize, 100, 254, 255, 256, 257, 300, 512, 513] {
        rep.eval();
        rep.count("many-arguments");
        // n placeholders and n arguments: either the n values in order or the machine's limit
        let fmt = vec!["{}"; n].join(" ");
        let args: Vec<String> = (0..n).map(|i| format!("{}", i % 10)).collect();
        let src = format!("print(\"{fmt}\", {}); [7, 9]", args.join(", "));
        let o = run_eval(&src, &RunCfg { budget: VM_BUDGET, audit_heap: true });
        let want = format!("{}\n", args.join(" "));
        let ok = match &o.outcome {
            Outcome::Value(_) => o.output == want,
            Outcome::Error(_) => o.output.is_empty(),
            _ => false,
        } && o.events.is_empty();
        if !ok {
            rep.violation(viol("many-arguments", ("many-arguments:print".into(), json!({"src": src.chars().take(300).collect::<String>(), "n": n}), format!("the {n} values in order, or an error and no output"), o.render().chars().take(400).collect())));
        }
    }
    // (3) round trips and idempotence
    for i in &ints {
        rep.eval();
        rep.count("roundtrip:int");
        let p = vec![es(calln("int", vec![calln("string", vec![int_expr(*i)])]))];
        rep.nontrivial(&print_canonical(&p));
        if let Err(f) = check_expect(&p, &Val::Int(*i), "int(string(n))") {
            rep.violation(viol("roundtrip", f));
        }
        let p = vec![es(calln("int", vec![int_expr(*i)]))];
        if let Err(f) = check_expect(&p, &Val::Int(*i), "int(n)") {
            rep.violation(viol("roundtrip", f));
        }
        let p = vec![es(calln("string", vec![int_expr(*i)]))];
        if let Err(f) = check_expect(&p, &Val::Str(i.to_string()), "string(n)") {
            rep.violation(viol("roundtrip", f));
        }
    }
    for s in &shapes {
        for tname in ["bool", "int", "float", "string"] {
            rep.eval();
            rep.count("idempotence");
            let p1 = program(&[s], calln(tname, vec![s.expr.clone()]));
            let o1 = run_eval(&print_canonical(&p1), &RunCfg { budget: VM_BUDGET, audit_heap: true });
            if let Outcome::Value(v) = &o1.outcome {
                let p2 = program(&[s], calln(tname, vec![calln(tname, vec![s.expr.clone()])]));
                if let Err(f) = check_expect(&p2, v, &format!("{tname}({tname}(v)) = {tname}(v)")) {
                    rep.violation(viol("roundtrip", f));
                }
            }
        }
    }
    rep.sample(json!({"shape_call": print_canonical(&program(&[&shapes[shapes.len() - 1]], calln("string", vec![shapes[shapes.len() - 1].expr.clone()])))}));
    // (3b) a builtin that fails must leave nothing behind for the next call on the same machine (the prompt keeps its VM):
    // failing call on line 1, every builtin with a good argument on line 2, compared with a fresh evaluation of line 2
    let failing = ["lengte(5)", "int(\"twaalf\")", "float([1])", "string(functie() { 1 })", "bool(functie() { 1 })", "type()", "type(1, 2)", "lengte()", "int([1], 2)", "lengte(\"a\", \"b\", \"c\")"];
    let good = ["type(ja)", "int(\"12\")", "lengte(\"abc\")", "string(7)", "bool(0)", "float(2)", "print(\"{} {}\", 1, 2); 3", "lengte([1, 2])", "type(lengte(\"ab\"))"];
    for f in failing {
        for g in good {
            rep.eval();
            rep.count("after-failing-builtin");
            let want = run_eval(g, &RunCfg { budget: VM_BUDGET, audit_heap: true });
            let mut s = session_begin();
            let first = s.line(f, VM_BUDGET);
            let second = s.line(g, VM_BUDGET);
            s.end();
            crate::engine::install_gc_observer();
            rep.nontrivial(&format!("{f} / {g}"));
            if !matches!(first.outcome, Outcome::Error(_)) || !second.same_as(&want) || !second.events.is_empty() {
                rep.violation(viol("after-failing-builtin", ("builtin:stale-state-after-error".into(), json!({"session": [f, g]}), format!("line 2 as on a fresh machine: {}", want.render()), format!("line 1: {} / line 2: {}", first.render(), second.render()))));
            }
        }
    }
    // (4) generated floats: float(string(x)) bit-equal; (5) print formats
    let cases = ctx.pick(600_000u32, 10_000_000u32) / ctx.shards as u32;
    let seed = ctx.seed;
    par_shards(ctx.shards, rep, move |shard, r| {
        let fail = run_tapes(seed.wrapping_mul(122_949_829) + shard as u64, cases, 40, |tape, shrinking| {
            let mut t = Tape::new(tape);
            let bits = match t.below(4) {
                0 => t.u64() & 0x000f_ffff_ffff_ffff,
                1 => (t.range(-100_000, 100_000) as f64 / 64.0).to_bits(),
                _ => t.u64(),
            };
            let x = f64::from_bits(bits);
            if !x.is_finite() {
                return Ok(());
            }
            if !shrinking {
                r.eval();
                r.count("roundtrip:float");
            }
            let p = vec![es(calln("float", vec![calln("string", vec![float_expr(x)])]))];
            if !shrinking {
                r.nontrivial(&float_literal(x.abs()));
                if r.evaluations % 5000 == 3 {
                    r.sample(json!({"roundtrip": print_canonical(&p).chars().take(200).collect::<String>()}));
                }
            }
            check_expect(&p, &Val::Float(fbits(x)), "float(string(x))").map_err(|f| f.0)
        });
        if let Some((tape, _)) = fail {
            let mut t = Tape::new(&tape);
            let bits = match t.below(4) {
                0 => t.u64() & 0x000f_ffff_ffff_ffff,
                1 => (t.range(-100_000, 100_000) as f64 / 64.0).to_bits(),
                _ => t.u64(),
            };
            let x = f64::from_bits(bits);
            let p = vec![es(calln("float", vec![calln("string", vec![float_expr(x)])]))];
            if let Err(f) = check_expect(&p, &Val::Float(fbits(x)), "float(string(x))") {
                r.violation(viol("roundtrip", f));
            }
        }
        let fail = run_tapes(seed.wrapping_mul(141_650_939) + shard as u64, cases, 80, |tape, shrinking| {
            let mut t = Tape::new(tape);
            let (p, e) = gen_print_case(&mut t);
            if !shrinking {
                r.eval();
                r.count("print");
                if e.is_some() {
                    r.count("print:compared");
                }
                let src = print_canonical(&p);
                if src.matches("{}").count() >= 2 {
                    r.nontrivial(&src);
                    if r.nontrivial.len() % 3000 == 7 {
                        r.sample(json!({"print": src, "expected": e}));
                    }
                }
            }
            check_print(&p, &e).map_err(|f| f.0)
        });
        if let Some((tape, _)) = fail {
            let mut t = Tape::new(&tape);
            let (p, e) = gen_print_case(&mut t);
            if let Err(f) = check_print(&p, &e) {
                r.violation(viol("print", f));
            }
        }
    })
}
