//! C02 — execution never leaves the interpreter's own memory.
use crate::bytecode::*;
use crate::engine::*;
use crate::gen::*;
use crate::printer::print_canonical;
use crate::report::*;
use crate::tape::{run_tapes, Tape};
use crate::verifier::*;
use nederlang::compiler::Bytecode;
use nederlang::object::Object;
use serde_json::{json, Value};

type Fail = (String, Value, String, String);

pub struct Checked {
    pub compiled: bool,
    pub nontrivial: bool,
    pub unbounded: bool,
    pub code_hash: u64,
}

/// static verification on all paths + a probed run
pub fn check_source(src: &str, t: &Table) -> Result<Checked, Fail> {
    check_source_budget(src, t, 60_000)
}

pub fn check_source_budget(src: &str, t: &Table, budget: u64) -> Result<Checked, Fail> {
    note_current("parse", src);
    let code = match std::panic::catch_unwind(|| compile(src)) {
        Ok(Ok(c)) => c,
        // rejected by the front end (errors and front-end panics are C05's business)
        _ => return Ok(Checked { compiled: false, nontrivial: false, unbounded: false, code_hash: 0 }),
    };
    let v = verify(&code, t);
    let case = json!({"src": src});
    if let Some(f) = v.findings.first() {
        return Err((format!("static:{}", f.class), case, "bytecode that is safe on every path".into(), f.detail.clone()));
    }
    let b = boundaries(&code, t);
    let o = run_eval_bounds(src, &RunCfg { budget, audit_heap: false }, b);
    let probe = o.events.iter().find(|e| e.starts_with("probe"));
    if let Some(e) = probe {
        let short: String = e.split(|c: char| c.is_ascii_digit()).next().unwrap_or(e).trim().to_string();
        return Err((format!("dynamic:{short}"), case, "no out-of-contract access".into(), o.render()));
    }
    if let Outcome::Panic(m) = &o.outcome {
        // the repository's own debug assertions in the VM are additional oracles
        if m.contains("vm.rs") && (m.contains("assertion") || m.contains("index out of bounds") || m.contains("out of range")) {
            return Err((format!("dynamic:{}", crate::diff::crash_class(&o.outcome)), case, "no out-of-contract access".into(), o.render()));
        }
    }
    let h = crate::report::hash_str(&format!("{:?}", code.instructions));
    Ok(Checked { compiled: true, nontrivial: v.cond_jumps >= 1 && (v.units >= 2 || v.back_edges >= 1), unbounded: v.unbounded_growth, code_hash: h })
}

/// A session on a retained compiler and machine: the code of every line is verified on all paths (it follows the code of
/// the earlier lines in one buffer, and its functions may be called by later lines) and run under the probes.
pub fn check_session_lines(lines: &[crate::props::c17::Line]) -> Result<usize, Fail> {
    let case = crate::props::c17::session_json(lines);
    let mut s = crate::engine::session_begin();
    s.verify = Some(Table::load());
    let mut bad: Option<Fail> = None;
    for (i, l) in lines.iter().enumerate() {
        let o = s.line(&l.text(), l.cut.unwrap_or(crate::props::c17::BUDGET));
        if let Some(e) = o.events.iter().find(|e| e.starts_with("probe")) {
            bad = Some((format!("session:{}", e.split(" at ").next().unwrap_or("probe")), case.clone(), format!("line {i} runs inside the machine's own memory"), o.render()));
            break;
        }
        if let Outcome::Trap(m) = &o.outcome {
            if m.starts_with("probe") {
                bad = Some((format!("session:{}", m.split(" at ").next().unwrap_or("probe")), case.clone(), format!("line {i} runs inside the machine's own memory"), o.render()));
                break;
            }
        }
        if o.outcome.is_crash() {
            bad = Some((format!("session:crash:{}", crate::diff::crash_class(&o.outcome)), case.clone(), format!("line {i}: no crash"), o.render()));
            break;
        }
    }
    let findings = std::mem::take(&mut s.findings);
    s.end();
    crate::engine::install_gc_observer();
    if let Some((line, class, detail)) = findings.into_iter().next() {
        return Err((format!("session:verifier:{class}"), case, format!("the bytecode of line {line} is well-formed on every path"), detail));
    }
    match bad {
        Some(f) => Err(f),
        None => Ok(lines.len()),
    }
}

pub fn replay(case: &Value) -> Option<Violation> {
    if case.get("session").is_some() {
        let lines = crate::props::c17::lines_from_json(case)?;
        return check_session_lines(&lines).err().map(|f| Violation { property: "C02".into(), driver: "replay".into(), class: f.0, case: case.clone(), expected: f.2, observed: f.3 });
    }
    let t = Table::load();
    let src = case.get("src")?.as_str()?;
    check_source(src, &t).err().map(|f| Violation { property: "C02".into(), driver: "replay".into(), class: f.0, case: case.clone(), expected: f.2, observed: f.3 })
}

const VOCAB: [&str; 52] = [
    "als", "anders", "antwoord", "functie", "zolang", "stel", "ja", "nee", "stop", "volgende", "<=", ">=", "==", "!=", "&&", "||", "=", ";", ",", "(", ")", "{", "}", "[", "]", "!", "<", ">", "-",
    "+", "*", "/", "%", "a", "b", "f", "x", "0", "1", "2", "7", "1.5", "\"s\"", "print", "lengte", "int", "{", "}", "(", ")", ";", "a",
];

/// token-level edits of a program text (tokens of the canonical print are separated by single spaces)
fn mutate(src: &str, t: &mut Tape) -> String {
    let mut toks: Vec<String> = src.split(' ').map(|s| s.to_string()).collect();
    let edits = 1 + t.below(4);
    for _ in 0..edits {
        if toks.is_empty() {
            break;
        }
        let i = t.below(toks.len());
        match t.below(4) {
            0 => {
                toks.remove(i);
            }
            1 => {
                let x = toks[i].clone();
                toks.insert(i, x);
            }
            2 => {
                let j = t.below(toks.len());
                toks.swap(i, j);
            }
            _ => toks[i] = t.pick_str(&VOCAB).to_string(),
        }
    }
    toks.join(" ")
}

fn random_tokens(t: &mut Tape) -> String {
    let n = 1 + t.below(14);
    (0..n).map(|_| t.pick_str(&VOCAB)).collect::<Vec<_>>().join(" ")
}

/// the verifier must reject hand-assembled bad bytecode (one negative example per rule), otherwise it is vacuous
fn self_test(t: &Table) -> Result<usize, String> {
    let b = |n: &str| t.byte(n);
    let u16le = |v: u16| vec![(v & 0xff) as u8, (v >> 8) as u8];
    let mk = |ins: Vec<u8>, consts: Vec<Object>| Bytecode { constants: consts, instructions: ins, start: 0 };
    let cat = |parts: Vec<Vec<u8>>| parts.concat();
    let cases: Vec<(&str, Bytecode)> = vec![
        ("decode", mk(vec![250], vec![])),
        ("decode", mk(vec![b("Const"), 0], vec![Object::int(1)])),
        ("stack-underflow", mk(vec![b("Pop"), b("Halt")], vec![])),
        ("stack-underflow", mk(cat(vec![vec![b("True"), b("JumpIfFalse")], u16le(6), vec![b("Null"), b("Pop")], vec![b("Pop"), b("Halt")]]), vec![])),
        ("falls-off-end", mk(vec![b("Null"), b("Pop")], vec![])),
        ("jump-not-a-boundary", mk(cat(vec![vec![b("Jump")], u16le(4), vec![b("Const")], u16le(0), vec![b("Halt")]]), vec![Object::int(1)])),
        ("falls-off-end", mk(cat(vec![vec![b("Jump")], u16le(400), vec![b("Halt")]]), vec![])),
        ("constant-index-out-of-range", mk(cat(vec![vec![b("Const")], u16le(3), vec![b("Pop"), b("Halt")]]), vec![Object::int(1)])),
        ("local-index-out-of-range", mk(cat(vec![vec![b("GetLocal")], u16le(0), vec![b("Pop"), b("Halt")]]), vec![])),
        ("global-index-out-of-range", mk(cat(vec![vec![b("GetGlobal")], u16le(5), vec![b("Pop"), b("Halt")]]), vec![])),
        ("builtin-number-out-of-range", mk(vec![b("CallBuiltin"), 9, 0, b("Pop"), b("Halt")], vec![])),
        ("return-outside-function", mk(vec![b("Return")], vec![])),
        // function at 4: Halt inside; entry not on a boundary; body running into the caller's code
        ("halt-inside-function", mk(cat(vec![vec![b("Jump")], u16le(5), vec![b("Null")], vec![b("Halt")], vec![b("Halt")]]), vec![Object::function(3, 0)])),
        ("function-entry-not-a-boundary", mk(cat(vec![vec![b("Const")], u16le(0), vec![b("Pop"), b("Halt")]]), vec![Object::function(1, 0)])),
        ("instruction-shared-between-units", mk(cat(vec![vec![b("Jump")], u16le(5), vec![b("Null"), b("Pop")], vec![b("Null"), b("Pop"), b("Halt")]]), vec![Object::function(3, 0)])),
        ("stack-underflow", mk(cat(vec![vec![b("Jump")], u16le(6), vec![b("Pop"), b("Null"), b("ReturnValue")], vec![b("Halt")]]), vec![Object::function(3, 1)])),
        ("stack-underflow", mk(cat(vec![vec![b("Null")], vec![b("Call"), 1], vec![b("Pop"), b("Halt")]]), vec![])),
        ("stack-underflow", mk(cat(vec![vec![b("Null")], vec![b("Array")], u16le(2), vec![b("Pop"), b("Halt")]]), vec![])),
    ];
    let n = cases.len();
    for (want, code) in cases {
        let v = verify(&code, t);
        if !v.findings.iter().any(|f| f.class == want) {
            return Err(format!("the verifier does not flag `{want}` on {:?} (found {:?})", code.instructions, v.findings));
        }
    }
    // and a correct program must pass
    let good = compile("functie f(n) { als n < 2 { antwoord n } f(n - 1) + f(n - 2) } stel i = 0; zolang i < 3 { i += 1; als i == 2 { volgende } } f(5)").map_err(|e| format!("{e:?}"))?;
    let v = verify(&good, t);
    if !v.findings.is_empty() {
        return Err(format!("the verifier rejects a correct program: {:?}", v.findings));
    }
    Ok(n)
}

pub fn run_check(ctx: &Ctx) -> Report {
    let mut rep = Report::new(
        "C02",
        "exploration",
        "every generated program that compiles (profiles general, control, calls), 1-4 token-level edits (delete / duplicate / swap / replace by a vocabulary token) of such programs that still compile, and random token sequences that compile: \
         (a) a bytecode verifier checks ALL paths of the compiler's output - linear decode, code units (top level + every function constant), stack-height intervals with widening (no pop below the unit's locals on any path), \
         jump targets on instruction boundaries inside the same unit, no falling off the end, Return only in functions / Halt only at top level, constant / local / global / builtin numbers in range; \
         (c) generated sessions (C17's generator: up to 13 lines incl. lines that fail to parse / compile / run) on one retained compiler and machine: the code of every line is verified the same way and run under the probes; \
         (b) the program is run with probes at every unchecked access of the VM (pop, opcode and operand fetch incl. instruction boundaries, Call, CallBuiltin). \
         non-trivial = bytecode with >=1 conditional jump and a function unit or a loop back-edge; distinct by bytecode",
    );
    rep.assumptions.push("stack effects of Appendix B are the machine's specification; infeasible paths are included on purpose".into());
    let table = Table::load();
    let uncovered = crate::verifier::uncovered_opcodes(&table);
    if !uncovered.is_empty() {
        // a new opcode is not a violation: the stack-effect specification has to be extended first
        eprintln!("C02: the opcode table has opcodes without a stack-effect specification: {uncovered:?} (machinery incomplete, inconclusive)");
        std::process::exit(2);
    }
    match self_test(&table) {
        Ok(n) => {
            rep.extra.insert("verifier_self_test_negative_examples".into(), json!(n));
        }
        Err(e) => {
            eprintln!("C02: verifier self-test failed: {e}");
            std::process::exit(2);
        }
    }
    // directed: recursion around the 16-bit stack limit (frame base arithmetic), every depth near the crossing
    for (src_of, _) in crate::props::c12::limit_shapes() {
        let (mut lo, mut hi) = (1i64, 70_000i64);
        while lo < hi {
            let mid = (lo + hi + 1) / 2;
            let ok = matches!(run_eval(&src_of(mid).0, &RunCfg { budget: 30_000_000, audit_heap: false }).outcome, Outcome::Value(_));
            if ok {
                lo = mid;
            } else {
                hi = mid - 1;
            }
        }
        for depth in (lo - 8).max(1)..=(lo + 8) {
            let src = src_of(depth).0;
            rep.eval();
            rep.count("inputs:stack-limit-sweep");
            match check_source_budget(&src, &table, 30_000_000) {
                Ok(_) => rep.nontrivial(&src),
                Err(f) => rep.violation(Violation { property: "C02".into(), driver: "stack-limit-sweep".into(), class: f.0, case: f.1, expected: f.2, observed: f.3 }),
            }
        }
    }
    // directed: programs whose bytecode is just below / above the 16-bit limit of jump operands, with a jumping construct at the end
    // or around everything; each must be rejected by the compiler or be safe on every path
    {
        let tails: [&str; 7] = [
            "als n > 0 { n = 1 }",
            "als n > 0 { n = 1 } anders { n = 2 }",
            "zolang n > 7 { n = n - 9 }",
            "functie f() { 1 } f()",
            "zolang ja { stop }",
            "stel i = 0; zolang i < 3 { i += 1; als i == 2 { volgende } }",
            "n",
        ];
        let wraps: [(&str, &str); 4] = [("", ""), ("als ja { ", " }"), ("stel w = 0; zolang w < 1 { w += 1; ", " }"), ("functie g() { stel n = 0; ", " n } g()")];
        let build = |fill: usize, tail: &str, wrap: (&str, &str)| format!("stel n = 0; {}{}{}; {}", wrap.0, "n = n + 1; ".repeat(fill), wrap.1, tail);
        for wrap in wraps {
            // the largest number of filler statements the compiler still accepts with this wrapper
            let (mut lo, mut hi) = (1usize, 9000usize);
            while lo < hi {
                let mid = (lo + hi + 1) / 2;
                let ok = matches!(std::panic::catch_unwind(|| compile(&build(mid, "n", wrap))), Ok(Ok(_)));
                if ok {
                    lo = mid;
                } else {
                    hi = mid - 1;
                }
            }
            for fill in lo.saturating_sub(4)..=lo + 4 {
                for tail in tails {
                    let src = build(fill, tail, wrap);
                    rep.eval();
                    rep.count("inputs:size-limit-sweep");
                    match check_source_budget(&src, &table, 2_000_000) {
                        Ok(c) => {
                            if c.compiled {
                                rep.count("compiled:size-limit-sweep");
                                rep.nontrivial(&format!("size-sweep {fill} {tail} {}", wrap.0));
                            }
                        }
                        Err(f) => rep.violation(Violation { property: "C02".into(), driver: "size-limit-sweep".into(), class: f.0, case: f.1, expected: f.2, observed: f.3 }),
                    }
                }
            }
        }
    }
    let cases = ctx.pick(600_000u32, 12_000_000u32) / ctx.shards as u32;
    let sessions = ctx.pick(40_000u32, 1_000_000u32) / ctx.shards as u32;
    let seed = ctx.seed;
    par_shards(ctx.shards, rep, move |shard, r| {
        let table = Table::load();
        let profiles = [Profile::general(), Profile::control(), Profile::calls()];
        let mut last_fail: Option<Fail> = None;
        let fail = run_tapes(seed.wrapping_mul(160_481_183) + shard as u64, cases, 700, |tape, shrinking| {
            let mut t0 = Tape::new(tape);
            let which = t0.below(10);
            let p = &profiles[t0.below(3)];
            let (src, kind) = match which {
                0 => (random_tokens(&mut t0), "random-tokens"),
                5 | 6 => {
                    // syntactic (not type-directed) trees over the whole grammar, with every identifier declared up front:
                    // exits in operand positions, functions in loops, returns in odd places, ...
                    let (prog, _) = crate::props::c07::gen_syntax(&tape[2.min(tape.len())..]);
                    let mut full: crate::ast::BlockStmt = crate::props::c07::IDENTS.iter().map(|n| crate::ast::let_(n, crate::ast::int(0))).collect();
                    full.extend(prog);
                    (print_canonical(&full), "syntactic")
                }
                1..=4 => {
                    let (prog, _, used) = gen_program_used(&tape[2.min(tape.len())..], p);
                    let mut t = Tape::new(&tape[(2 + used).min(tape.len())..]);
                    (mutate(&print_canonical(&prog), &mut t), "mutated")
                }
                _ => {
                    let (prog, _) = gen_program(&tape[2.min(tape.len())..], p);
                    (print_canonical(&prog), "generated")
                }
            };
            let res = check_source(&src, &table);
            if !shrinking {
                r.eval();
                r.count(&format!("inputs:{kind}"));
                if let Ok(c) = &res {
                    if c.compiled {
                        r.count(&format!("compiled:{kind}"));
                        if c.unbounded {
                            r.count("note:unbounded-stack-growth-on-a-loop");
                        }
                        if c.nontrivial {
                            r.nontrivial(&format!("{:x}", c.code_hash));
                            if r.nontrivial.len() % 2500 == 1 {
                                r.sample(json!({"kind": kind, "src": src}));
                            }
                        }
                    }
                }
            }
            match res {
                Ok(_) => Ok(()),
                Err(f) => {
                    let c = f.0.clone();
                    last_fail = Some(f);
                    Err(c)
                }
            }
        });
        if fail.is_some() {
            if let Some(f) = last_fail {
                // minimise generated (not mutated) programs at the AST level when the text still parses
                let src = f.1.get("src").and_then(|s| s.as_str()).unwrap_or("").to_string();
                let mut best = f.clone();
                if let Ok(prog) = crate::dbgparse::parse_source(&src) {
                    let cls = f.0.clone();
                    let small = crate::minimize::minimize(&prog, &mut |p| matches!(check_source(&print_canonical(p), &table), Err(g) if g.0 == cls), 2000);
                    if let Err(g) = check_source(&print_canonical(&small), &table) {
                        best = g;
                    }
                }
                r.violation(Violation { property: "C02".into(), driver: "generated".into(), class: best.0, case: best.1, expected: best.2, observed: best.3 });
            }
        }
        // sessions: lines compiled one after the other by ONE compiler (failing lines in between) and run by ONE machine
        let fail = run_tapes(seed.wrapping_mul(122_949_829) + shard as u64, sessions, 300, |tape, shrinking| {
            let lines = crate::props::c17::gen_session(tape);
            if !shrinking {
                r.eval();
                r.count("sessions");
                r.nontrivial(&format!("session:{lines:?}"));
            }
            check_session_lines(&lines).map(|_| ()).map_err(|f| f.0)
        });
        if let Some((tape, _)) = fail {
            let lines = crate::props::c17::gen_session(&tape);
            if let Err(f) = check_session_lines(&lines) {
                let cls = f.0.clone();
                let small = crate::props::c17::minimize_session(&lines, &mut |l| matches!(check_session_lines(l), Err(g) if g.0 == cls));
                if let Err(f) = check_session_lines(&small) {
                    r.violation(Violation { property: "C02".into(), driver: "sessions".into(), class: f.0, case: f.1, expected: f.2, observed: f.3 });
                }
            }
        }
    })
}
