//! C17 — a retained session behaves like one growing program.
use crate::engine::*;
use crate::report::*;
use crate::tape::{run_tapes, Tape};
use serde_json::{json, Value};

pub const BUDGET: u64 = 200_000;

/// a line of a session: statements that each either complete or fail without a lasting side effect
#[derive(Clone, Debug, PartialEq)]
pub struct Line {
    pub stmts: Vec<String>,
    /// cut the run of this line after this many instructions (fault injection)
    pub cut: Option<u64>,
}

impl Line {
    pub fn new(stmts: &[&str]) -> Line {
        Line { stmts: stmts.iter().map(|s| s.to_string()).collect(), cut: None }
    }
    pub fn text(&self) -> String {
        self.stmts.join("; ")
    }
}

fn program(effective: &[String], line: &[String]) -> String {
    let mut all: Vec<String> = effective.to_vec();
    all.extend(line.iter().cloned());
    all.join(";\n")
}

fn is_static_error(o: &Obs) -> bool {
    matches!(o.outcome, Outcome::Error(ErrKind::Syntax) | Outcome::Error(ErrKind::Reference)) && o.output.is_empty()
}

type Fail = (String, Value, String, String);

pub struct SessionStats {
    pub lines: usize,
    pub failing_lines_followed: usize,
    pub cut_lines: usize,
    pub reads_old_state: bool,
}

/// Runs the session on a retained compiler/VM and checks every line against the single-program oracle
pub fn check_session(lines: &[Line]) -> Result<SessionStats, Fail> {
    // the oracle first (it resets the shadow heap per evaluation), then the session on its own
    let alternatives = expectations(lines);
    let mut s = session_begin();
    let r = std::panic::catch_unwind(std::panic::AssertUnwindSafe(|| run_session(&mut s, lines)));
    s.end();
    crate::engine::install_gc_observer();
    let got = match r {
        Ok(Ok(g)) => g,
        Ok(Err(f)) => return Err(f),
        Err(p) => {
            let o = classify_unwind(p);
            return Err((format!("crash:{}", crate::diff::crash_class(&o)), session_json(lines), "no crash".into(), o.render()));
        }
    };
    let mut best: Option<(usize, String, String, String)> = None;
    for alt in &alternatives {
        let mut st = SessionStats { lines: lines.len(), failing_lines_followed: 0, cut_lines: 0, reads_old_state: false };
        match judge(lines, &got, alt, &mut st) {
            Ok(()) => return Ok(st),
            Err(m) => {
                if best.as_ref().map(|b| m.0 > b.0).unwrap_or(true) {
                    best = Some(m);
                }
            }
        }
    }
    let (_, class, expected, observed) = best.unwrap_or((0, "line:outcome".into(), String::new(), String::new()));
    Err((class, session_json(lines), expected, observed))
}

pub fn session_json(lines: &[Line]) -> Value {
    json!({"session": lines.iter().map(|l| json!({"line": l.text(), "stmts": l.stmts, "cut": l.cut})).collect::<Vec<_>>()})
}

pub fn lines_from_json(v: &Value) -> Option<Vec<Line>> {
    let mut out = Vec::new();
    for l in v.get("session")?.as_array()? {
        let stmts: Vec<String> = l.get("stmts")?.as_array()?.iter().filter_map(|x| x.as_str().map(|s| s.to_string())).collect();
        out.push(Line { stmts, cut: l.get("cut").and_then(|c| c.as_u64()) });
    }
    Some(out)
}

/// what the single-program oracle says about one line
#[derive(Clone)]
struct Expect {
    whole: Obs,
    want_out: String,
    /// the oracle itself ran into the budget: nothing is judged from here on
    undecided: bool,
}

/// Phase 1 (pure oracle, no session involved): expectations for every line, from nederlang::eval of concatenations.
/// A line that is cut by the budget may have completed one more store than whole statements (the store of `x = c`
/// happens halfway the statement), so such a line forks the expectations for the rest of the session.
fn expectations(lines: &[Line]) -> Vec<Vec<Expect>> {
    let mut out = Vec::new();
    expand(lines, 0, Vec::new(), Vec::new(), &mut out);
    out
}

fn expand(lines: &[Line], i: usize, effective: Vec<String>, acc: Vec<Expect>, out: &mut Vec<Vec<Expect>>) {
    if i == lines.len() || out.len() >= 8 {
        out.push(acc);
        return;
    }
    let cfg = RunCfg { budget: BUDGET * 4, audit_heap: false };
    let line = &lines[i];
    let prev = if effective.is_empty() { None } else { Some(run_eval(&program(&effective, &[]), &cfg)) };
    let prev_out = prev.as_ref().map(|o| o.output.clone()).unwrap_or_default();
    let base_ticks = prev.as_ref().map(|o| o.ticks.saturating_sub(1)).unwrap_or(0);
    let whole = run_eval(&program(&effective, &line.stmts), &cfg);
    let want_out = whole.output.strip_prefix(prev_out.as_str()).unwrap_or(&whole.output).to_string();
    let undecided = whole.outcome == Outcome::Budget;
    let e = Expect { whole: whole.clone(), want_out, undecided };
    let mut acc = acc;
    acc.push(e);
    if undecided {
        out.push(acc);
        return;
    }
    let n = line.stmts.len();
    let mut dones: Vec<usize> = Vec::new();
    let whole_need = whole.ticks.saturating_sub(1).saturating_sub(base_ticks);
    let cut_hits = line.cut.map(|k| whole_need > k).unwrap_or(false);
    if matches!(whole.outcome, Outcome::Value(_)) && !cut_hits {
        dones.push(n);
    } else if statically_rejected(&effective, &line.stmts) {
        dones.push(0);
    } else {
        let mut done = 0;
        for j in 1..=n {
            let upto = run_eval(&program(&effective, &line.stmts[..j]), &cfg);
            if matches!(upto.outcome, Outcome::Error(_)) {
                break;
            }
            if let (Some(k), true) = (line.cut, cut_hits) {
                let need = upto.ticks.saturating_sub(1).saturating_sub(base_ticks);
                if need > k {
                    break;
                }
            }
            done = j;
        }
        dones.push(done);
        if cut_hits && done < n {
            // the store of the next statement may have happened already
            dones.push(done + 1);
        }
    }
    for d in dones {
        let mut eff = effective.clone();
        eff.extend(line.stmts[..d].iter().cloned());
        expand(lines, i + 1, eff, acc.clone(), out);
    }
}

/// Phase 2: the session on its own; returns the observation of every line (or the violation of a crash)
fn run_session(s: &mut Session, lines: &[Line]) -> Result<Vec<Obs>, Fail> {
    let case = session_json(lines);
    let mut got = Vec::new();
    for (i, line) in lines.iter().enumerate() {
        let text = line.text();
        let o = s.line(&text, line.cut.unwrap_or(BUDGET));
        if o.outcome.is_crash() || !o.events.is_empty() {
            return Err((
                if o.outcome.is_crash() { format!("crash:{}", crate::diff::crash_class(&o.outcome)) } else { format!("event:{}", o.events[0].split(" of ").next().unwrap_or("")) },
                case,
                format!("line {i} (`{text}`) behaves as the last line of one program"),
                o.render(),
            ));
        }
        got.push(o);
    }
    Ok(got)
}

/// Phase 3: does the session agree with one alternative of the oracle? Err((line, class, expected, observed)) for the first disagreement
fn judge(lines: &[Line], got: &[Obs], expect: &[Expect], st: &mut SessionStats) -> Result<(), (usize, String, String, String)> {
    let mut prev_failed = false;
    for (i, line) in lines.iter().enumerate() {
        let (g, e) = (&got[i], match expect.get(i) {
            Some(e) => e,
            None => return Ok(()),
        });
        if e.undecided {
            return Ok(());
        }
        if prev_failed {
            st.failing_lines_followed += 1;
        }
        let text = line.text();
        if line.cut.is_some() {
            st.cut_lines += 1;
            if g.outcome == Outcome::Budget {
                // ended with the injected error: what it printed must be a prefix of what the whole line prints
                if !e.want_out.starts_with(&g.output) {
                    return Err((i, "cut:output".into(), format!("a prefix of {:?}", e.want_out), g.render()));
                }
                prev_failed = true;
                continue;
            }
        }
        let same_outcome = match (&g.outcome, &e.whole.outcome) {
            (Outcome::Value(a), Outcome::Value(b)) => {
                // U1: the value is only fixed when the line ends with an expression statement
                let ends_with_decl = line.stmts.last().map(|s| s.trim_start().starts_with("stel ") || s.trim_start().starts_with("functie ")).unwrap_or(true);
                ends_with_decl || a.agrees(b)
            }
            (Outcome::Error(a), Outcome::Error(b)) => a == b,
            _ => false,
        };
        if !same_outcome || g.output != e.want_out {
            return Err((
                i,
                if !same_outcome { "line:outcome".into() } else { "line:output".into() },
                format!("line {i} (`{text}`): {} | out={:?}", e.whole.outcome.render(), e.want_out),
                g.render(),
            ));
        }
        if matches!(e.whole.outcome, Outcome::Value(_)) {
            if i >= 2 {
                st.reads_old_state = true;
            }
            prev_failed = false;
        } else {
            prev_failed = true;
        }
    }
    Ok(())
}

/// is the line rejected before anything runs (parse or compile error)?
fn statically_rejected(effective: &[String], stmts: &[String]) -> bool {
    let src = program(effective, stmts);
    match std::panic::catch_unwind(|| crate::bytecode::compile(&src)) {
        Ok(Ok(_)) => false,
        _ => true,
    }
}

// ---------------------------------------------------------------------------------------
// line alphabet

fn alphabet() -> Vec<Line> {
    vec![
        Line::new(&["stel a = 1"]),
        Line::new(&["stel b = a + 10", "b"]),
        Line::new(&["a = a + 1", "a"]),
        Line::new(&["a"]),
        Line::new(&["stel s = \"tekst\"", "stel lijst = [a, s, 2.5]", "lijst"]),
        Line::new(&["lijst[0] = string(a)", "lijst"]),
        Line::new(&["functie f(n) { als n < 1 { antwoord 0 } n + f(n - 1) }", "f(4) + a"]),
        Line::new(&["f(3)"]),
        Line::new(&["stel i = 0", "zolang i < 5 { i += 1; a += i }", "a"]),
        // failing lines: parse error, compile error after a declaration, compile error inside a loop with a pending stop, run-time errors after assignments
        Line::new(&["a = 5", "(1 +"]),
        Line::new(&["stel z = 2", "print(\"z\")", "onbekend"]),
        Line::new(&["zolang ja { stop; onbekend }"]),
        Line::new(&["a = 7", "print(\"voor\")", "[][1]", "a = 8"]),
        Line::new(&["a = 9", "functie g(x) { x + nee }", "g(1)", "a = 10"]),
        Line::new(&["z"]),
        Line::new(&["print(\"{} {}\", a, type(a))", "a * 2"]),
        Line::new(&["als ja { stel tak = 2; { onbekend } }"]),
        Line::new(&["stel z = onbekend"]),
        Line::new(&["functie buiten() { functie binnen() { onbekend } }"]),
        Line::new(&["stel z = 4", "z + a"]),
        Line::new(&["functie lees(n) { n + a }", "lees(1)"]),
        Line::new(&["functie noteer(x) { stel laatste = x }", "functie niets() { }"]),
        Line::new(&["noteer(5)", "niets()", "a"]),
        Line::new(&["stel a = 50", "a"]),
        Line::new(&["lees(2) + a"]),
    ]
}

const VARS: [&str; 4] = ["a", "b", "c", "d"];

fn gen_line(t: &mut Tape, declared: &mut Vec<String>, heap_vars: &mut Vec<String>, funcs: &mut Vec<String>, ghosts: &mut Vec<String>, uniq: &mut usize) -> Line {
    let pick_var = |t: &mut Tape, d: &Vec<String>| if d.is_empty() { "a".to_string() } else { t.pick(d).clone() };
    *uniq += 1;
    let k = *uniq;
    match t.below(27) {
        0 | 1 => {
            let v = t.pick_str(&VARS).to_string();
            if !declared.contains(&v) {
                declared.push(v.clone());
            }
            Line::new(&[&format!("stel {v} = {}", t.range(0, 50))])
        }
        2 | 3 => {
            let v = pick_var(t, declared);
            Line::new(&[&format!("{v} = {v} + {}", t.range(1, 9)), &v])
        }
        4 => {
            let (v, w) = (pick_var(t, declared), pick_var(t, declared));
            Line::new(&[&format!("{v} * 2 + {w}")])
        }
        5 => {
            let v = pick_var(t, declared);
            Line::new(&[&format!("{v} += {}", t.range(1, 5)), &format!("[{v}, {v} < 10]")])
        }
        6 => {
            let name = format!("h{k}");
            heap_vars.push(name.clone());
            let v = pick_var(t, declared);
            Line::new(&[&format!("stel {name} = [{v}, \"s{k}\", 1.5, [{v}]]"), &name])
        }
        7 if !heap_vars.is_empty() => {
            let h = t.pick(heap_vars).clone();
            let v = pick_var(t, declared);
            Line::new(&[&format!("{h}[{}] = string({v})", t.range(-4, 3)), &h])
        }
        8 if !heap_vars.is_empty() => {
            let h = t.pick(heap_vars).clone();
            Line::new(&[&format!("[lengte({h}), {h}[0], {h}[1]]")])
        }
        9 => {
            let name = format!("f{k}");
            funcs.push(name.clone());
            let v = pick_var(t, declared);
            Line::new(&[&format!("functie {name}(n) {{ als n < 1 {{ antwoord 0 }} n + {name}(n - 1) }}"), &format!("{name}(4) + {v}")])
        }
        10 if !funcs.is_empty() => {
            let f = t.pick(funcs).clone();
            Line::new(&[&format!("{f}({})", t.range(0, 6))])
        }
        11 if !heap_vars.is_empty() && !funcs.is_empty() => {
            // a fresh object stored into an array of an earlier line, then collections (function returns)
            let (h, f) = (t.pick(heap_vars).clone(), t.pick(funcs).clone());
            Line::new(&[&format!("{h}[0] = string({k})"), &format!("{f}(2)"), &format!("{f}(1)"), &h])
        }
        12 => {
            let v = pick_var(t, declared);
            let n = t.range(0, 6);
            let ctr = format!("i{k}");
            Line::new(&[&format!("stel {ctr} = 0"), &format!("zolang {ctr} < {n} {{ {ctr} += 1; {v} += {ctr} }}"), &v])
        }
        13 => {
            // parse errors
            let v = pick_var(t, declared);
            let bad = *t.pick(&["(1 +", "stel = 3", "als {", "1 +* 2", "\"open", "functie (", "§"]);
            Line::new(&[&format!("{v} = {}", t.range(60, 90)), bad])
        }
        14 | 15 => {
            // compile error at a chosen statement position
            let v = pick_var(t, declared);
            let bad = t
                .pick(&[
                    "onbekend",
                    "stop",
                    "volgende",
                    "als ja { onbekend2 }",
                    "zolang ja { stop; onbekend3 }",
                    "functie q() { onbekend4 }",
                    "antwoord 1",
                    "stel w = w2",
                    "{ stel binnen = 1; onbekend5 }",
                    "als ja { stel tak = 2; { onbekend6 } }",
                    "stel spook = onbekend7",
                    "functie buiten() { functie binnen() { onbekend8 } }",
                    "functie buiten2(a) { stel l = a; als ja { functie binnen2(b) { stel m = b; zolang ja { onbekend9 } } } }",
                ])
                .to_string();
            // names this line tries to declare: none of them may exist afterwards
            for g in [format!("n{k}"), "w".to_string(), "binnen".to_string(), "tak".to_string(), "spook".to_string(), "q".to_string(), "buiten".to_string(), "buiten2".to_string()] {
                if !ghosts.contains(&g) {
                    ghosts.push(g);
                }
            }
            let mut stmts = vec![format!("stel n{k} = 3"), format!("print(\"p{k}\")"), format!("{v} = {}", t.range(60, 90))];
            let pos = t.below(stmts.len() + 1);
            stmts.insert(pos, bad);
            Line { stmts, cut: None }
        }
        16 | 17 => {
            // run-time error after some assignments
            let v = pick_var(t, declared);
            let w = pick_var(t, declared);
            let bad = t.pick(&["[][1]", "1 + nee", "functie kapot(x) { x + nee }; kapot(1)", "stel lus_teller = 0; zolang lus_teller < 9 { lus_teller += 1; als lus_teller == 3 { [][lus_teller] } }", "lengte(5)", "1 / 0"]).to_string();
            let mut stmts = vec![format!("{v} = {}", t.range(100, 200)), format!("print(\"r{k}\")")];
            stmts.extend(bad.split("; ").map(|s| s.to_string()));
            stmts.push(format!("{w} = {}", t.range(300, 400)));
            Line { stmts, cut: None }
        }
        18 | 19 => {
            // the budget cuts the line after k instructions: assignments of constants to declared variables and prints only,
            // so that the state after the cut is the state after a prefix of the statements (plus at most one store)
            let (v, w) = (pick_var(t, declared), pick_var(t, declared));
            let stmts = vec![
                format!("{v} = {}", t.range(500, 600)),
                format!("print(\"m{k}\")"),
                format!("{w} = {}", t.range(700, 800)),
                format!("{v} = {}", t.range(900, 999)),
                format!("print(\"n{k} {{}}\", {w})"),
                format!("{w} = {}", t.range(1000, 1100)),
                v.clone(),
            ];
            Line { stmts, cut: Some(1 + t.below(30) as u64) }
        }
        20 => {
            // a function that reads (and one that writes) a global of an earlier line: it keeps referring to THAT variable,
            // also when a later line declares the name again
            let name = format!("lees{k}");
            funcs.push(name.clone());
            let v = pick_var(t, declared);
            if t.maybe(128) {
                Line::new(&[&format!("functie {name}(n) {{ n + {v} }}"), &format!("{name}(1) + {v}")])
            } else {
                Line::new(&[&format!("functie {name}(n) {{ {v} = {v} + n; {v} }}"), &format!("[{name}(1), {v}]")])
            }
        }
        25 => {
            // functions whose body has no value (it ends in a declaration, in a block that does, or is empty): defined on one
            // line, called from later ones
            let name = format!("stil{k}");
            funcs.push(name.clone());
            let body = *t.pick(&["stel laatste = n", "", "{ stel binnen = n }", "als n > 0 { stel tak = n }", "stel i = 0; zolang i < n { i += 1 }"]);
            Line::new(&[&format!("functie {name}(n) {{ {body} }}"), &format!("[{name}(2)]")])
        }
        21 => {
            // declare a name again (a new variable; functions of earlier lines keep the old one), then use both
            let v = pick_var(t, declared);
            let val = t.range(200, 300);
            match funcs.is_empty() {
                true => Line::new(&[&format!("stel {v} = {val}"), &format!("{v} + 1")]),
                false => {
                    let f = t.pick(funcs).clone();
                    Line::new(&[&format!("stel {v} = {val}"), &format!("[{f}(2), {v}]")])
                }
            }
        }
        22 | 23 if !ghosts.is_empty() => {
            // a name that only a failed line tried to declare: it does not exist
            let g = t.pick(ghosts).clone();
            if t.maybe(128) {
                Line::new(&[&g])
            } else {
                let v = pick_var(t, declared);
                Line::new(&[&format!("print(\"voor {{}}\", {v})"), &format!("{g} + 1")])
            }
        }
        24 if !ghosts.is_empty() => {
            // ... and can be declared for real afterwards
            let g = t.pick(ghosts).clone();
            let val = t.range(1, 99);
            ghosts.retain(|x| *x != g);
            if !["w", "binnen", "tak", "spook", "q"].contains(&g.as_str()) {
                // (the fixed ghost names may be re-used by later failing lines, so they are not added to the readable variables)
            }
            Line::new(&[&format!("stel {g} = {val}"), &format!("{g} * 2")])
        }
        _ => {
            let v = pick_var(t, declared);
            Line::new(&[&format!("print(\"{{}} {{}}\", {v}, type({v}))"), &format!("{v} * 2")])
        }
    }
}

pub fn gen_session(tape: &[u8]) -> Vec<Line> {
    let mut t = Tape::new(tape);
    let n = 2 + t.below(11);
    let mut declared = vec!["a".to_string()];
    let (mut heap_vars, mut funcs, mut ghosts, mut uniq) = (Vec::new(), Vec::new(), Vec::new(), 0usize);
    let mut lines = vec![Line::new(&["stel a = 1"])];
    for _ in 0..n {
        lines.push(gen_line(&mut t, &mut declared, &mut heap_vars, &mut funcs, &mut ghosts, &mut uniq));
    }
    lines
}

// ---------------------------------------------------------------------------------------
// "A line that fails has no influence on the meaning of later lines beyond the assignments it completed before failing":
// the session with the failing line, the session with only what that line completed (a successful line), and - when it
// completed nothing - the session without the line must show the same for EVERY later line, including lines whose value
// the language leaves open (U1: a line that ends in a declaration). Implementation against itself.

const RELATION_PREFIX: [&str; 5] = ["stel a = 10", "stel i = 0; stel rij = [1, 2]", "functie f(x) { x + a }", "stel t = \"tekst\"", "functie f4(x, y, z) { stel s = x + y; stel u = [s, z]; u[0] + u[1] }"];

/// (failing line, the successful line that makes the same completed assignments; None = it completed nothing)
const FAILING_LINES: [(&str, Option<&str>); 22] = [
    ("a + 1; a / 0", Some("a + 1")),
    ("a + 1; a / 0", None),
    ("stel q = (", None),
    ("a + 1; onbekend", None),
    ("[1.5, \"x\", 1 / 0]", None),
    ("f(1 / 0)", None),
    ("f(a) + f(1) / 0", None),
    ("a = a + 1; 1 / 0", Some("a = a + 1")),
    ("stel z = 5; z / 0", Some("stel z = 5")),
    ("rij[0] = 9; rij[5]", Some("rij[0] = 9")),
    ("functie g() { a / 0 }; g()", Some("functie g() { a / 0 }")),
    ("zolang i < 5 { i = i + 1; als i == 3 { a / 0 } }", Some("i = 3")),
    ("print(\"x\"); [a, a / 0]", Some("print(\"x\")")),
    ("\"abc\" + 1", None),
    ("t[0] = \"X\"; t[99]", Some("t[0] = \"X\"")),
    ("a; stop", None),
    ("a; antwoord 1", None),
    ("[a, t, 2.5]; lengte(5)", None),
    ("f(1); f(2); f()", None),
    ("als ja { a * 3 }; zolang ja { [][0] }", None),
    ("{ a + 7 }; 1 % 0", None),
    ("-a; !a", None),
];

const LATER_LINES: [&str; 18] = [
    "f4(1, 2, 3)",
    "f4(f4(1, 1, 1), f(2), f4(a, a, a))",
    "stel b = 2",
    "b",
    "a",
    "[i, rij, t]",
    "f(1)",
    "stel c = [a, 2.5]",
    "zolang i < 7 { i = i + 1 }",
    "als nee { 1 }",
    "functie h() { 3 }",
    "h()",
    "{ }",
    "a = a + 1",
    "stel d = f(2); stel e = d",
    "print(\"{}\", a)",
    "rij[1] = t",
    "stel g = 1",
];

fn run_lines(lines: &[String]) -> Result<Vec<Obs>, Obs> {
    let mut s = session_begin();
    let mut got = Vec::new();
    let mut bad = None;
    for l in lines {
        let o = s.line(l, BUDGET);
        if o.outcome.is_crash() || !o.events.is_empty() {
            bad = Some(o);
            break;
        }
        got.push(o);
    }
    s.end();
    crate::engine::install_gc_observer();
    match bad {
        Some(o) => Err(o),
        None => Ok(got),
    }
}

fn relation_case(failing: &str, same_as: Option<&str>, later: &[&str]) -> Result<(), Fail> {
    let prefix: Vec<String> = RELATION_PREFIX.iter().map(|s| s.to_string()).collect();
    let tail: Vec<String> = later.iter().map(|s| s.to_string()).collect();
    let with_failure: Vec<String> = prefix.iter().cloned().chain([failing.to_string()]).chain(tail.iter().cloned()).collect();
    let without: Vec<String> = match same_as {
        Some(l) => prefix.iter().cloned().chain([l.to_string()]).chain(tail.iter().cloned()).collect(),
        None => prefix.iter().cloned().chain(tail.iter().cloned()).collect(),
    };
    let case = json!({"kind": "failed-line-relation", "failing": failing, "same_as": same_as, "later": later});
    let a = run_lines(&with_failure).map_err(|o| ("crash-in-session".to_string(), case.clone(), "no crash".to_string(), o.render()))?;
    let b = run_lines(&without).map_err(|o| ("crash-in-session".to_string(), case.clone(), "no crash".to_string(), o.render()))?;
    // the failing line must fail, and its stand-in must not
    if !matches!(a[prefix.len()].outcome, Outcome::Error(_)) || (same_as.is_some() && !matches!(b[prefix.len()].outcome, Outcome::Value(_))) {
        return Ok(());
    }
    let (ta, tb) = (&a[prefix.len() + 1..], &b[b.len() - tail.len()..]);
    for (k, (x, y)) in ta.iter().zip(tb.iter()).enumerate() {
        if !x.same_as(y) {
            return Err((
                "failed-line-influences-later-line".into(),
                case,
                format!("line `{}` as after `{}`: {}", later[k], same_as.unwrap_or("(no line at all)"), y.render()),
                format!("after the failing line `{failing}`: {}", x.render()),
            ));
        }
    }
    Ok(())
}

fn failed_line_relation(rep: &mut Report, seed: u64) {
    use proptest::prelude::RngCore;
    let mut runner = crate::tape::runner(seed.wrapping_mul(15_485_863), 1);
    // failing lines that have many values pending when they fail (a list under construction, arguments, nested calls)
    let mut big: Vec<(String, Option<&str>)> = Vec::new();
    for n in [100usize, 30_000, 65_000, 65_534] {
        big.push((format!("[{}1 / 0]", "0, ".repeat(n)), None));
        big.push((format!("[{}a / 0]", "t, ".repeat(n)), None));
    }
    for n in [50usize, 200, 254] {
        big.push((format!("f({}1 / 0)", "f(".repeat(n)), None));
    }
    let known = load_known_findings();
    // declarations whose initialiser fails: the name must stay unknown to later lines (which read it, test its type, declare
    // something else first, or declare it for real)
    for failing in ["stel p = 1 / 0", "stel p = int(\"abc\")", "stel p = rij[5]", "stel p = f(1, 2)"] {
        for tail in [vec!["p"], vec!["stel q = 2", "p"], vec!["stel q = 2", "type(p)"], vec!["stel q = 2", "print(\"voor\"); p + 1"], vec!["stel p = 3", "p"], vec!["functie g() { p }", "stel q = 1", "g()"]] {
            rep.eval();
            rep.count("failed-line-relation");
            rep.nontrivial(&format!("{failing} | {tail:?}"));
            if let Err(f) = relation_case(failing, None, &tail) {
                // the known finding is exactly this: the name is left declared, with no value. If the later lines show what
                // they show after `stel p = <null>`, that is it; anything else (another value in p, a crash) is a new violation
                let as_if_declared_null = relation_case(failing, Some("stel p = als nee { 1 }"), &tail).is_ok();
                if as_if_declared_null && crate::difftest::known_match(&known, "C17", &f.0, &f.1) {
                    rep.count("excluded_by_known_finding");
                } else if as_if_declared_null {
                    rep.violation(Violation { property: "C17".into(), driver: "failed-line-relation".into(), class: f.0, case: f.1, expected: f.2, observed: f.3 });
                } else {
                    // (a class of its own, so that the known finding's line in known-findings.txt does not cover it)
                    rep.violation(Violation { property: "C17".into(), driver: "failed-line-relation".into(), class: "failed-declaration-leaves-more-than-its-name".into(), case: f.1, expected: f.2, observed: f.3 });
                }
            }
        }
    }
    for (failing, same_as) in big.iter().map(|(a, b)| (a.as_str(), *b)).chain(FAILING_LINES) {
        // every later line directly after the failing one, and generated sequences of 2-5 later lines
        let mut tails: Vec<Vec<&str>> = LATER_LINES.iter().map(|l| vec![*l]).collect();
        for _ in 0..24 {
            let mut bytes = [0u8; 8];
            runner.rng().fill_bytes(&mut bytes);
            let n = 2 + (bytes[0] as usize) % 4;
            tails.push((0..n).map(|j| LATER_LINES[(bytes[1 + j] as usize * LATER_LINES.len()) >> 8]).collect());
        }
        for tail in tails {
            rep.eval();
            rep.count("failed-line-relation");
            rep.nontrivial(&format!("{failing} | {tail:?}"));
            if let Err(f) = relation_case(failing, same_as, &tail) {
                rep.violation(Violation { property: "C17".into(), driver: "failed-line-relation".into(), class: f.0, case: f.1, expected: f.2, observed: f.3 });
            }
        }
    }
    rep.sample(json!({"failed-line-relation": ["stel a = 10", "a + 1; a / 0   // fails after a value was computed", "stel b = 2   // must show what it shows after `a + 1` alone, or after nothing"]}));
}

// ---------------------------------------------------------------------------------------
// The interactive prompt itself (src/bin/nederlang.rs): the lines of a session are piped into the program built from
// the tree; what it writes must be what a retained compiler and machine of the library answer, line by line.

pub fn repl_exe() -> std::path::PathBuf {
    crate::report::verif_dir().join("work/cli-target/debug/nederlang")
}

/// how the prompt shows a value (None: the text of this value is left open - U12, U16)
pub fn shown(v: &Val, open: &mut Vec<usize>, known: &mut std::collections::HashMap<usize, Vec<Val>>, top: bool) -> Option<String> {
    Some(match v {
        Val::Null => {
            if top {
                String::new()
            } else {
                return None;
            }
        }
        Val::Bool(b) => if *b { "ja" } else { "nee" }.to_string(),
        Val::Int(i) => i.to_string(),
        Val::Float(bits) => {
            let f = f64::from_bits(*bits);
            if !f.is_finite() || f.abs() >= 1e15 || (f != 0.0 && f.abs() < 1e-5) {
                return None;
            }
            f.to_string()
        }
        Val::Str(s) => s.clone(),
        Val::Func(_) | Val::Masked => return None,
        Val::Arr(id, items) => {
            known.insert(*id, items.clone());
            open.push(*id);
            let mut parts = Vec::new();
            for it in items {
                parts.push(shown(it, open, known, false)?);
            }
            open.pop();
            format!("[{}]", parts.join(", "))
        }
        Val::Ref(id) => {
            if open.contains(id) {
                "[...]".to_string()
            } else {
                let items = known.get(id)?.clone();
                shown(&Val::Arr(*id, items), open, known, false)?
            }
        }
    })
}

/// What the program writes before it reads anything (a banner, if any) and before every line (the prompt), measured on the
/// program itself: its output for no input at all is banner + prompt, for one empty line banner + prompt + prompt.
fn repl_calibration() -> Option<(String, String)> {
    static CAL: std::sync::OnceLock<Option<(String, String)>> = std::sync::OnceLock::new();
    CAL.get_or_init(|| {
        let s0 = repl_io("")?.0;
        let s1 = repl_io("\n")?.0;
        let prompt = s1.strip_prefix(s0.as_str())?.to_string();
        let banner = s0.strip_suffix(prompt.as_str())?.to_string();
        Some((banner, prompt))
    })
    .clone()
}

/// (stdout, stderr, exit code) of the prompt program for the given standard input
fn repl_io(input: &str) -> Option<(String, String, Option<i32>)> {
    use std::io::{Read, Write};
    use std::os::unix::process::CommandExt;
    let mut child = std::process::Command::new("timeout")
        .process_group(0)
        .arg("--signal=KILL")
        .arg("60")
        .arg(repl_exe())
        .stdin(std::process::Stdio::piped())
        .stdout(std::process::Stdio::piped())
        .stderr(std::process::Stdio::piped())
        .spawn()
        .ok()?;
    if let Some(mut si) = child.stdin.take() {
        let _ = si.write_all(input.as_bytes());
    }
    let mut so = child.stdout.take();
    let mut se = child.stderr.take();
    let t_out = std::thread::spawn(move || {
        let mut b = Vec::new();
        if let Some(o) = so.as_mut() {
            let _ = o.take(1 << 20).read_to_end(&mut b);
            let _ = std::io::copy(o, &mut std::io::sink());
        }
        String::from_utf8_lossy(&b).to_string()
    });
    let t_err = std::thread::spawn(move || {
        let mut b = Vec::new();
        if let Some(o) = se.as_mut() {
            let _ = o.take(1 << 20).read_to_end(&mut b);
            let _ = std::io::copy(o, &mut std::io::sink());
        }
        String::from_utf8_lossy(&b).to_string()
    });
    let st = child.wait();
    let out = t_out.join().unwrap_or_default();
    let err = t_err.join().unwrap_or_default();
    Some((out, err, st.ok().and_then(|s| s.code())))
}

/// the error kinds named in a text, in order of appearance
pub fn kinds_named(text: &str) -> Vec<&'static str> {
    let names = ["SyntaxError", "ReferenceError", "TypeError", "IndexError", "ArgumentError"];
    let mut found: Vec<(usize, &'static str)> = Vec::new();
    for n in names {
        let mut from = 0;
        while let Some(p) = text[from..].find(n) {
            found.push((from + p, n));
            from += p + n.len();
        }
    }
    found.sort();
    found.into_iter().map(|x| x.1).collect()
}

/// Ok(None): not judged (a line may not end, or a value whose text is left open)
fn repl_case(lines: &[String]) -> Result<Option<()>, Fail> {
    let (banner, prompt) = match repl_calibration() {
        Some(c) => c,
        None => {
            eprintln!("C17: cannot run {} (the check script builds it)", repl_exe().display());
            std::process::exit(2)
        }
    };
    // what the library answers
    let mut want_out = banner.clone();
    let mut want_err: Vec<&'static str> = Vec::new();
    let mut s = session_begin();
    let mut judged = true;
    for l in lines {
        let o = s.line(l, BUDGET);
        want_out.push_str(&prompt);
        want_out.push_str(&o.output);
        match &o.outcome {
            Outcome::Value(v) => match shown(v, &mut Vec::new(), &mut std::collections::HashMap::new(), true) {
                Some(t) if t.is_empty() && matches!(v, Val::Null) => {}
                Some(t) => {
                    want_out.push_str(&t);
                    want_out.push('\n');
                }
                None => judged = false,
            },
            Outcome::Error(k) => want_err.push(k.name()),
            _ => judged = false,
        }
        if !judged {
            break;
        }
    }
    s.end();
    crate::engine::install_gc_observer();
    if !judged {
        return Ok(None);
    }
    want_out.push_str(&prompt);
    let input: String = lines.iter().map(|l| format!("{l}\n")).collect();
    let case = json!({"kind": "repl", "lines": lines});
    let (got_out, got_err, code) = match repl_io(&input) {
        Some(x) => x,
        None => {
            eprintln!("C17: cannot run {}", repl_exe().display());
            std::process::exit(2)
        }
    };
    if code != Some(0) {
        // (a program that does not end is killed after 60 s and shows here as well)
        return Err(("repl:does-not-end-in-order".into(), case, "exit code 0 at the end of the input".into(), format!("status {code:?}; stderr: {}", got_err.chars().take(300).collect::<String>())));
    }
    if got_out != want_out {
        return Err(("repl:stdout".into(), case, format!("{want_out:?}"), format!("{got_out:?}")));
    }
    // (how an error is worded is the program's business; which kinds it names, in which order, is not)
    let got_kinds = kinds_named(&got_err);
    if got_kinds != want_err {
        return Err(("repl:stderr".into(), case, format!("{want_err:?}"), format!("{got_kinds:?}")));
    }
    Ok(Some(()))
}

fn repl_driver(rep: &mut Report, ctx: &Ctx) {
    use proptest::prelude::RngCore;
    let mut sessions: Vec<Vec<String>> = Vec::new();
    // every pair of alphabet lines, and generated sessions (lines cut by the budget left out)
    let alpha = alphabet();
    for a in &alpha {
        for b in &alpha {
            sessions.push(vec![alpha[0].text(), a.text(), b.text()]);
        }
    }
    // long lines: the prompt has to take a line as one line however long it is
    for n in [1_000usize, 4_090, 4_096, 4_100, 9_000, 70_000] {
        sessions.push(vec![format!("stel lijst = [{}1]", "1, ".repeat(n / 3)), "lengte(lijst)".to_string(), "lijst[-1] + 41".to_string()]);
        sessions.push(vec![format!("stel tekst = \"{}é\"", "ab".repeat(n / 2)), "lengte(tekst)".to_string()]);
        sessions.push(vec!["stel a = 5".to_string(), format!("a + 1 //{}", " commentaar".repeat(n / 11)), "a * 2".to_string()]);
        sessions.push(vec!["stel a = 5".to_string(), format!("{}a", " ".repeat(n)), format!("a{}", "; a".repeat(n / 3))]);
    }
    let mut runner = crate::tape::runner(ctx.seed.wrapping_mul(553_105_253), 1);
    for _ in 0..ctx.pick(1_500u32, 30_000u32) {
        let mut tape = vec![0u8; 300];
        runner.rng().fill_bytes(&mut tape);
        sessions.push(gen_session(&tape).iter().filter(|l| l.cut.is_none()).map(|l| l.text()).collect());
    }
    let sessions = std::sync::Arc::new(sessions);
    let shards = ctx.shards;
    let failures = std::sync::Arc::new(std::sync::atomic::AtomicUsize::new(0));
    let sub = par_shards(shards, Report::new("C17", "fault_enumeration", ""), {
        let sessions = sessions.clone();
        let failures = failures.clone();
        move |shard, r| {
            for (i, lines) in sessions.iter().enumerate() {
                if i % shards != shard || failures.load(std::sync::atomic::Ordering::Relaxed) >= 3 {
                    continue;
                }
                crate::engine::note_current("done", "");
                match repl_case(lines) {
                    Ok(Some(())) => {
                        r.eval();
                        r.count("prompt-sessions");
                        if lines.len() >= 3 {
                            r.nontrivial(&format!("prompt:{lines:?}"));
                        }
                    }
                    Ok(None) => r.count("prompt-sessions-not-judged"),
                    Err(f) => {
                        failures.fetch_add(1, std::sync::atomic::Ordering::Relaxed);
                        r.violation(Violation { property: "C17".into(), driver: "prompt".into(), class: f.0, case: f.1, expected: f.2, observed: f.3 });
                    }
                }
            }
        }
    });
    rep.merge(sub);
    rep.sample(json!({"prompt": ["stel a = 1", "a +", "a + 1"], "expects": ">>> >>> >>> 2\n>>>  on stdout, one SyntaxError on stderr"}));
}

pub fn replay(case: &Value) -> Option<Violation> {
    if case.get("kind").and_then(|k| k.as_str()) == Some("repl") {
        let lines: Vec<String> = case.get("lines")?.as_array()?.iter().filter_map(|x| x.as_str().map(|s| s.to_string())).collect();
        return repl_case(&lines).err().map(|f| Violation { property: "C17".into(), driver: "replay".into(), class: f.0, case: case.clone(), expected: f.2, observed: f.3 });
    }
    if case.get("kind").and_then(|k| k.as_str()) == Some("failed-line-relation") {
        let failing = case.get("failing")?.as_str()?;
        let same_as = case.get("same_as").and_then(|s| s.as_str());
        let later: Vec<&str> = case.get("later")?.as_array()?.iter().filter_map(|x| x.as_str()).collect();
        return relation_case(failing, same_as, &later).err().map(|f| Violation { property: "C17".into(), driver: "replay".into(), class: f.0, case: case.clone(), expected: f.2, observed: f.3 });
    }
    let lines = lines_from_json(case)?;
    check_session(&lines).err().map(|f| Violation { property: "C17".into(), driver: "replay".into(), class: f.0, case: case.clone(), expected: f.2, observed: f.3 })
}

pub fn minimize_session(lines: &[Line], fails: &mut dyn FnMut(&[Line]) -> bool) -> Vec<Line> {
    let mut cur = lines.to_vec();
    loop {
        let mut progressed = false;
        for i in 0..cur.len() {
            let mut c = cur.clone();
            c.remove(i);
            if !c.is_empty() && fails(&c) {
                cur = c;
                progressed = true;
                break;
            }
        }
        if !progressed {
            return cur;
        }
    }
}

pub fn run_check(ctx: &Ctx) -> Report {
    let mut rep = Report::new(
        "C17",
        "fault_enumeration",
        "sessions on one retained (Compiler, VM) pair: ALL sessions of <=3 lines over a 25-line alphabet (declarations, assignments, expressions over earlier globals, heap values, a function definition with calls, a call of a function of an earlier line, a function that reads a global that a later line declares again, a loop, \
         and failing lines: parse error, compile errors after a declaration and inside a loop with a pending stop, run-time errors after assignments), plus generated sessions of up to 13 lines (lines of the same kinds, compile errors at every statement position, \
         run-time errors inside functions and loops, and lines cut short by the instruction budget after k instructions). Oracle: every line must produce what the same line produces as the last line of ONE program made of the effective earlier lines (nederlang::eval of the concatenation); \
         a line that fails statically contributes nothing, a line that fails at run time contributes the statements it completed. \
         The prompt itself (src/bin/nederlang.rs, built from the tree): the lines of all 3-line alphabet sessions and of generated sessions are piped into the program; its standard output must be, prompt by prompt, the printed text and the value that a retained compiler and machine of the library answer, its standard error one error of the same kind per failing line, and it must end with exit code 0. \
         Relation (implementation against itself): after a failing line, every later line - also one whose value is left open (U1) - shows what it shows after a successful line that makes the same completed assignments, or after no line at all (22 failing lines x 16 later lines + generated sequences). non-trivial = a failing line is followed by another line, or a line reads state written two or more lines earlier; distinct by session text",
    );
    rep.assumptions.push("U1: the value of a line that ends with a declaration is not compared".into());
    rep.assumptions.push("results of session lines are not released by the harness (the prompt only prints them)".into());
    let alpha = alphabet();
    rep.extra.insert("alphabet".into(), json!(alpha.iter().map(|l| l.text()).collect::<Vec<_>>()));
    let shards = ctx.shards;
    let seed = ctx.seed;
    let cases = ctx.pick(120_000u32, 3_000_000u32) / ctx.shards as u32;
    let depth = 3usize;
    // fault enumeration: a line cut after k instructions for EVERY k, followed by a probe; the state seen by the probe
    // must be the state after a prefix of the line's statements, and that prefix must not shrink when k grows
    let sweep_lines: Vec<Vec<&str>> = vec![
        vec!["a = 11", "print(\"een\")", "b = 22", "a = 33", "print(\"twee {}\", b)", "b = 44", "a"],
        vec!["b = a + 5", "a = b * 2", "lijst[0] = a", "a = lijst[0] + 1", "b = 0", "b"],
        vec!["a = 1", "a = 2", "a = 3", "a = 4", "a = 5", "b = a"],
    ];
    for stmts in &sweep_lines {
        let setup = Line::new(&["stel a = 1", "stel b = 2", "stel lijst = [0]"]);
        let probe = Line::new(&["[a, b, lijst[0]]"]);
        // the states after every prefix of the statements, from the single-program oracle
        let cfg = RunCfg { budget: BUDGET, audit_heap: false };
        let mut prefix_states: Vec<String> = Vec::new();
        for j in 0..=stmts.len() {
            let mut eff: Vec<String> = setup.stmts.clone();
            eff.extend(stmts[..j].iter().map(|s| s.to_string()));
            prefix_states.push(run_eval(&program(&eff, &probe.stmts), &cfg).outcome.render());
        }
        let full = run_eval(&program(&setup.stmts, &stmts.iter().map(|s| s.to_string()).collect::<Vec<_>>()), &cfg);
        let base = run_eval(&program(&setup.stmts, &[]), &cfg);
        let total = full.ticks - base.ticks + 2;
        let mut last_j = 0usize;
        for k in 1..=total {
            let cut = Line { stmts: stmts.iter().map(|s| s.to_string()).collect(), cut: Some(k) };
            let session = vec![setup.clone(), cut.clone(), probe.clone()];
            rep.eval();
            rep.count("cut-sweep");
            rep.nontrivial(&format!("{session:?}"));
            match check_session(&session) {
                Err(f) => rep.violation(Violation { property: "C17".into(), driver: "cut-sweep".into(), class: f.0, case: f.1, expected: f.2, observed: f.3 }),
                Ok(_) => {
                    // monotonicity: observe the probe once more and locate its state among the prefix states
                    let mut s = session_begin();
                    let _ = s.line(&setup.text(), BUDGET);
                    let _ = s.line(&cut.text(), k);
                    let seen = s.line(&probe.text(), BUDGET).outcome.render();
                    s.end();
                    crate::engine::install_gc_observer();
                    match prefix_states.iter().rposition(|p| *p == seen) {
                        Some(j) => {
                            // (equal states of different prefixes: rposition takes the largest, which can only overestimate j for small k)
                            let jmin = prefix_states.iter().position(|p| *p == seen).unwrap_or(j);
                            if j < last_j {
                                rep.violation(Violation {
                                    property: "C17".into(),
                                    driver: "cut-sweep".into(),
                                    class: "cut:not-monotone".into(),
                                    case: session_json(&session),
                                    expected: format!("the completed prefix does not shrink when the cut point moves from {} to {k} (was {last_j} statements)", k - 1),
                                    observed: format!("{j} statements: {seen}"),
                                });
                            }
                            last_j = last_j.max(jmin);
                        }
                        None => rep.violation(Violation {
                            property: "C17".into(),
                            driver: "cut-sweep".into(),
                            class: "cut:state-is-no-prefix".into(),
                            case: session_json(&session),
                            expected: format!("one of the states after a prefix of the statements: {prefix_states:?}"),
                            observed: seen,
                        }),
                    }
                }
            }
        }
    }
    failed_line_relation(&mut rep, seed);
    rep.extra.insert("exhaustive_parts".into(), json!(["all sessions of <=3 lines over the 25-line alphabet (16 275 sessions)", "every cut point k of three multi-statement lines"]));
    let ctx2 = ctx.clone();
    let mut rep = par_shards(ctx.shards, rep, move |shard, r| {
        let alpha = alphabet();
        let n = alpha.len();
        let mut idx = 0usize;
        let mut first: Option<(Vec<Line>, Fail)> = None;
        for len in 1..=depth {
            let total = n.pow(len as u32);
            for code in 0..total {
                idx += 1;
                if idx % shards != shard {
                    continue;
                }
                let mut c = code;
                let mut lines = Vec::new();
                for _ in 0..len {
                    lines.push(alpha[c % n].clone());
                    c /= n;
                }
                r.eval();
                r.count("sessions-enumerated");
                match check_session(&lines) {
                    Ok(st) => {
                        if st.failing_lines_followed > 0 || st.reads_old_state {
                            r.nontrivial(&format!("{lines:?}"));
                        }
                    }
                    Err(f) => {
                        if first.is_none() {
                            first = Some((lines, f));
                        }
                    }
                }
            }
        }
        if let Some((lines, f)) = first {
            let cls = f.0.clone();
            let small = minimize_session(&lines, &mut |l| matches!(check_session(l), Err(g) if g.0 == cls));
            if let Err(f) = check_session(&small) {
                r.violation(Violation { property: "C17".into(), driver: "sessions-enumerated".into(), class: f.0, case: f.1, expected: f.2, observed: f.3 });
            }
        }
        let fail = run_tapes(seed.wrapping_mul(275_604_541) + shard as u64, cases, 300, |tape, shrinking| {
            let lines = gen_session(tape);
            let res = check_session(&lines);
            if !shrinking {
                r.eval();
                r.count("sessions-generated");
                if let Ok(st) = &res {
                    r.count_n("lines", st.lines as u64);
                    r.count_n("lines-after-a-failing-line", st.failing_lines_followed as u64);
                    r.count_n("lines-cut-by-the-budget", st.cut_lines as u64);
                    if st.failing_lines_followed > 0 || st.reads_old_state {
                        r.nontrivial(&format!("{lines:?}"));
                        if r.nontrivial.len() % 700 == 1 {
                            r.sample(json!(lines.iter().map(|l| if let Some(k) = l.cut { format!("{}   // cut after {k} instructions", l.text()) } else { l.text() }).collect::<Vec<_>>()));
                        }
                    }
                }
            }
            res.map(|_| ()).map_err(|f| f.0)
        });
        if let Some((tape, _)) = fail {
            let lines = gen_session(&tape);
            if let Err(f) = check_session(&lines) {
                let cls = f.0.clone();
                let small = minimize_session(&lines, &mut |l| matches!(check_session(l), Err(g) if g.0 == cls));
                if let Err(f) = check_session(&small) {
                    r.violation(Violation { property: "C17".into(), driver: "sessions-generated".into(), class: f.0, case: f.1, expected: f.2, observed: f.3 });
                }
            }
        }
    });
    if std::env::var("NLV_NO_CLI").is_err() {
        repl_driver(&mut rep, &ctx2);
    }
    rep
}
