//! C08 — tokenisation and literals are faithful to the text.
use crate::report::*;
use crate::tape::{run_tapes, Tape};
use nederlang::verif;
use serde_json::json;

#[derive(Clone, Debug, PartialEq)]
pub struct Tok {
    /// expected Debug rendering of the token
    pub debug: String,
    /// exact spelling in the source
    pub text: String,
    pub class: Class,
}

#[derive(Clone, Copy, Debug, PartialEq)]
pub enum Class {
    Word, // identifier or keyword
    Int,
    Float, // contains its one decimal point
    Str,
    Punct,
    Illegal,
}

const KEYWORDS: [(&str, &str); 10] = [
    ("als", "If"),
    ("anders", "Else"),
    ("antwoord", "Return"),
    ("functie", "Func"),
    ("zolang", "While"),
    ("stel", "Declare"),
    ("ja", "True"),
    ("nee", "False"),
    ("stop", "Break"),
    ("volgende", "Continue"),
];

const PUNCT: [(&str, &str); 25] = [
    ("<=", "Lte"),
    (">=", "Gte"),
    ("==", "Eq"),
    ("!=", "Neq"),
    ("&&", "And"),
    ("||", "Or"),
    ("=", "Assign"),
    (";", "Semi"),
    (",", "Comma"),
    (".", "Dot"),
    ("(", "OpenParen"),
    (")", "CloseParen"),
    ("{", "OpenBrace"),
    ("}", "CloseBrace"),
    ("[", "OpenBracket"),
    ("]", "CloseBracket"),
    ("!", "Bang"),
    ("<", "Lt"),
    (">", "Gt"),
    ("-", "Minus"),
    ("+", "Plus"),
    ("*", "Star"),
    ("/", "Slash"),
    ("^", "Caret"),
    ("%", "Percent"),
];

const ILLEGAL: [&str; 19] = ["§", "#", "@", "&", "|", "'", "$", "~", "?", ":", "\\", "`", "№", "٣", "\u{0}", "\u{8}", "\u{1b}", "\u{1f}", "\u{7f}"];

const IDENT_START: [&str; 12] = ["a", "z", "A", "_", "é", "ß", "λ", "ж", "名", "x", "j", "s"];
const IDENT_CONT: [&str; 14] = ["a", "Z", "_", "0", "9", "é", "λ", "名", "٣", "1", "n", "e", "t", "o"];
const IDENT_SPECIAL: [&str; 16] = ["alsof", "stopt", "ja_", "_ja", "neen", "stel1", "functies", "zolangs", "anders2", "volgende_", "antwoorden", "Ja", "NEE", "als_", "jaa", "é"];

pub const WS: [&str; 11] = [" ", "\t", "\n", "\u{000B}", "\u{000C}", "\r", "\u{0085}", "\u{200E}", "\u{200F}", "\u{2028}", "\u{2029}"];

/// raw units of string contents: single characters and two-character escapes
const RAW_UNITS: [&str; 12] = ["a", "é", "n", "t", "q", "{", " ", "\\\"", "\\\\", "\\n", "\\t", "\\q"];

fn ident_token(s: &str) -> Tok {
    for (k, d) in KEYWORDS {
        if k == s {
            return Tok { debug: d.to_string(), text: s.to_string(), class: Class::Word };
        }
    }
    Tok { debug: format!("Identifier({s:?})"), text: s.to_string(), class: Class::Word }
}

/// documented decoding of a raw string content: exactly \" \\ \n \t, left to right
pub fn decode_raw(raw: &str) -> String {
    let mut out = String::new();
    let mut it = raw.chars().peekable();
    while let Some(c) = it.next() {
        if c == '\\' {
            match it.peek() {
                Some('"') => {
                    out.push('"');
                    it.next();
                }
                Some('\\') => {
                    out.push('\\');
                    it.next();
                }
                Some('n') => {
                    out.push('\n');
                    it.next();
                }
                Some('t') => {
                    out.push('\t');
                    it.next();
                }
                _ => out.push('\\'),
            }
        } else {
            out.push(c);
        }
    }
    out
}

fn gen_raw(t: &mut Tape, max_units: usize) -> String {
    let n = t.below(max_units + 1);
    let mut s = String::new();
    for _ in 0..n {
        if t.maybe(30) {
            s.push_str(t.pick_str(&["x", "𝄞", "€", "}", "/", "//", ";", "stel", "\u{2028}", "'", "#"]));
        } else {
            s.push_str(t.pick_str(&RAW_UNITS));
        }
    }
    s
}

pub fn gen_token(t: &mut Tape) -> Tok {
    match t.below(14) {
        0 | 1 => {
            let (k, d) = *t.pick(&KEYWORDS);
            Tok { debug: d.to_string(), text: k.to_string(), class: Class::Word }
        }
        2 | 3 | 4 => {
            let (p, d) = *t.pick(&PUNCT);
            Tok { debug: d.to_string(), text: p.to_string(), class: Class::Punct }
        }
        5 | 6 => {
            if t.maybe(100) {
                ident_token(t.pick_str(&IDENT_SPECIAL))
            } else {
                let mut s = t.pick_str(&IDENT_START).to_string();
                for _ in 0..t.below(5) {
                    s.push_str(t.pick_str(&IDENT_CONT));
                }
                ident_token(&s)
            }
        }
        7 | 8 => {
            let mut s = String::new();
            for _ in 0..1 + t.below(6) {
                s.push(char::from(b'0' + t.below(10) as u8));
            }
            Tok { debug: format!("Int({s:?})"), text: s, class: Class::Int }
        }
        9 => {
            let mut s = String::new();
            for _ in 0..1 + t.below(4) {
                s.push(char::from(b'0' + t.below(10) as u8));
            }
            s.push('.');
            for _ in 0..t.below(4) {
                s.push(char::from(b'0' + t.below(10) as u8));
            }
            Tok { debug: format!("Float({s:?})"), text: s, class: Class::Float }
        }
        10 | 11 => {
            let raw = gen_raw(t, 6);
            Tok { debug: format!("String({raw:?})"), text: format!("\"{raw}\""), class: Class::Str }
        }
        12 => {
            let c = t.pick_str(&ILLEGAL);
            Tok { debug: "Illegal".into(), text: c.to_string(), class: Class::Illegal }
        }
        _ => {
            let (p, d) = *t.pick(&PUNCT);
            Tok { debug: d.to_string(), text: p.to_string(), class: Class::Punct }
        }
    }
}

/// would the two spellings lex differently when written without a separator? (from the token definitions)
pub fn needs_separator(a: &Tok, b: &Tok) -> bool {
    use Class::*;
    let bf = b.text.chars().next().unwrap_or(' ');
    let al = a.text.chars().last().unwrap_or(' ');
    match (a.class, b.class) {
        // an identifier/keyword swallows following word characters and digits
        (Word, Word) | (Word, Int) | (Word, Float) => return true,
        // digits run together; an int swallows one following `.`
        (Int, Int) | (Int, Float) | (Float, Int) | (Float, Float) => return true,
        _ => {}
    }
    if a.class == Int && bf == '.' {
        return true;
    }
    // a word also continues over characters that are alphanumeric but cannot start a word (e.g. non-ASCII digits)
    if a.class == Word && (bf.is_alphanumeric() || bf == '_') {
        return true;
    }
    if (a.class == Int || a.class == Float) && bf.is_ascii_digit() {
        return true;
    }
    if matches!(al, '=' | '!' | '<' | '>') && a.text.len() == 1 && bf == '=' {
        return true;
    }
    if al == '/' && bf == '/' {
        return true;
    }
    if a.text == "&" && bf == '&' {
        return true;
    }
    if a.text == "|" && bf == '|' {
        return true;
    }
    false
}

pub fn render(toks: &[Tok], t: &mut Tape) -> (String, usize) {
    let mut out = String::new();
    let mut empty_gaps = 0;
    let gap = |out: &mut String, a: Option<&Tok>, b: Option<&Tok>, t: &mut Tape, empty: &mut usize| {
        let needs = match (a, b) {
            (Some(a), Some(b)) => needs_separator(a, b),
            _ => false,
        };
        match t.below(8) {
            0 | 1 | 2 if !needs => {
                if a.is_some() && b.is_some() {
                    *empty += 1;
                }
            }
            0..=4 => out.push(' '),
            5 | 6 => {
                for _ in 0..1 + t.below(3) {
                    out.push_str(t.pick_str(&WS));
                }
            }
            _ => {
                // comment + newline; a `/` directly before `//` would become part of the comment
                if needs || a.map(|a| a.text.ends_with('/')).unwrap_or(false) || t.maybe(128) {
                    out.push(' ');
                }
                out.push_str("//");
                out.push_str(t.pick_str(&["", " tekst", "\"", " \\", "/", " als ja {"]));
                out.push('\n');
            }
        }
    };
    gap(&mut out, None, toks.first(), t, &mut empty_gaps);
    for (i, tk) in toks.iter().enumerate() {
        out.push_str(&tk.text);
        gap(&mut out, Some(tk), toks.get(i + 1), t, &mut empty_gaps);
    }
    (out, empty_gaps)
}

fn lex(text: &str) -> Result<Vec<String>, String> {
    crate::engine::note_current("lex", text);
    match std::panic::catch_unwind(|| verif::tokens(text)) {
        Ok(v) => Ok(v),
        Err(p) => Err(format!("panic: {}", crate::engine::classify_unwind(p).render())),
    }
}

fn viol(driver: &str, class: &str, case: serde_json::Value, expected: String, observed: String) -> Violation {
    Violation { property: "C08".into(), driver: driver.into(), class: class.into(), case, expected, observed }
}

fn check_tokens(text: &str, expect: &[String]) -> Result<(), (String, String)> {
    match lex(text) {
        Err(m) => Err(("lexer-panic".into(), m)),
        Ok(got) => {
            if got == expect {
                Ok(())
            } else if got.len() < expect.len() && got[..] == expect[..got.len()] {
                Err(("tokens-dropped".into(), format!("{got:?}")))
            } else {
                Err(("tokens-differ".into(), format!("{got:?}")))
            }
        }
    }
}

/// string literal: token and decoded value
fn check_string(raw: &str) -> Result<(), (String, String, String)> {
    let text = format!("\"{raw}\"");
    let expect = vec![format!("String({raw:?})")];
    if let Err((c, got)) = check_tokens(&text, &expect) {
        return Err((format!("string-token:{c}"), format!("{expect:?}"), got));
    }
    let want = format!("[Expr(String {{ value: {:?} }})]", decode_raw(raw));
    crate::engine::note_current("parse", &text);
    let got = match std::panic::catch_unwind(|| nederlang::parser::parse(&text)) {
        Ok(Ok(t)) => format!("{t:?}"),
        Ok(Err(e)) => format!("parse error: {e:?}"),
        Err(p) => format!("panic: {}", crate::engine::classify_unwind(p).render()),
    };
    if got != want {
        return Err(("string-decode".into(), want, got));
    }
    Ok(())
}

/// texts in which something is not a token: evaluation must not silently ignore the rest
fn check_nodrop(text: &str) -> Result<(), String> {
    crate::engine::note_current("parse", text);
    match std::panic::catch_unwind(|| nederlang::parser::parse(text)) {
        Ok(Ok(t)) => Err(format!("accepted as {t:?}")),
        Ok(Err(_)) => Ok(()),
        Err(p) => Err(format!("panic: {}", crate::engine::classify_unwind(p).render())),
    }
}

pub fn replay(case: &serde_json::Value) -> Option<Violation> {
    if case.get("kind").and_then(|k| k.as_str()) == Some("cli-file") {
        return crate::props::c01::cli_file_case(case.get("text")?.as_str()?).err().map(|mut v| {
            v.property = "C08".into();
            v
        });
    }
    if let Some(raw) = case.get("raw").and_then(|x| x.as_str()) {
        return check_string(raw).err().map(|(c, e, g)| viol("replay", &c, case.clone(), e, g));
    }
    if let Some(text) = case.get("nodrop").and_then(|x| x.as_str()) {
        return check_nodrop(text).err().map(|g| viol("replay", "input-dropped", case.clone(), "a syntax error".into(), g));
    }
    let text = case.get("text")?.as_str()?;
    let expect: Vec<String> = case.get("tokens")?.as_array()?.iter().filter_map(|x| x.as_str().map(|s| s.to_string())).collect();
    check_tokens(text, &expect).err().map(|(c, g)| viol("replay", &c, case.clone(), format!("{expect:?}"), g))
}

fn gen_seq(tape: &[u8]) -> (Vec<Tok>, String, usize) {
    let mut t = Tape::new(tape);
    let n = 1 + t.below(40);
    let toks: Vec<Tok> = (0..n).map(|_| gen_token(&mut t)).collect();
    let (text, empty) = render(&toks, &mut t);
    (toks, text, empty)
}

fn seq_nontrivial(toks: &[Tok], empty_gaps: usize) -> bool {
    empty_gaps > 0
        || toks.iter().any(|t| {
            (t.class == Class::Punct && t.text.len() == 2)
                || (t.class == Class::Word && t.debug.starts_with("Identifier") && KEYWORDS.iter().any(|(k, _)| t.text.starts_with(k)))
                || (t.class == Class::Str && t.text.contains('\\'))
        })
}

pub fn run(ctx: &Ctx) -> Report {
    let mut rep = Report::new(
        "C08",
        "exploration",
        "token sequences (<=40 tokens) over the whole vocabulary (10 keywords, 25 operator/punctuation tokens, ASCII/non-ASCII/keyword-prefixed identifiers, ints, floats, \
         strings, illegal characters) rendered with a separator per gap from {none where maximal munch allows, every whitespace form, comment+newline}; \
         oracle: the lexer's token dump equals the generated sequence (kind and exact spelling) and ends with the text. ALL raw string contents of <=4 units over \
         {a, é, n, t, q, {, space, \\\", \\\\, \\n, \\t, \\q} (22 621 literals): token spelling and decoded value D(raw). Directed texts with an illegal character or an \
         unterminated string between two valid statements must be rejected, not truncated. non-trivial = sequence with an empty separator, a two-character operator, \
         a keyword-prefixed identifier or a string with an escape; distinct by text",
    );
    rep.extra.insert("exhaustive_parts".into(), json!(["raw string contents of <=4 units over a 12-unit alphabet: 22 621 literals", "illegal character x statement pair grid"]));
    let seed = ctx.seed;
    let cases = ctx.pick(2_000_000u32, 40_000_000u32) / ctx.shards as u32;
    let shards = ctx.shards;
    let mut rep = par_shards(ctx.shards, rep, move |shard, r| {
        // (1) exhaustive strings, split over the shards
        let mut idx = 0usize;
        let mut stack: Vec<Vec<usize>> = vec![vec![]];
        while let Some(units) = stack.pop() {
            if units.len() < 4 {
                for u in 0..RAW_UNITS.len() {
                    let mut v = units.clone();
                    v.push(u);
                    stack.push(v);
                }
            }
            idx += 1;
            if idx % shards != shard {
                continue;
            }
            let raw: String = units.iter().map(|u| RAW_UNITS[*u]).collect();
            r.eval();
            r.count("strings-exhaustive");
            if raw.contains('\\') {
                r.nontrivial(&format!("\"{raw}\""));
            }
            if let Err((class, e, g)) = check_string(&raw) {
                r.violation(viol("strings-exhaustive", &class, json!({"raw": raw}), e, g));
            }
        }
        // (2) random token sequences
        let fail = run_tapes(seed.wrapping_mul(4409) + shard as u64, cases, 300, |tape, shrinking| {
            let (toks, text, empty) = gen_seq(tape);
            if !shrinking {
                r.eval();
                r.count("token-sequences");
                if seq_nontrivial(&toks, empty) {
                    r.nontrivial(&text);
                    if r.nontrivial.len() % 9000 == 5 {
                        r.sample(json!({"text": text, "tokens": toks.iter().map(|t| t.debug.clone()).collect::<Vec<_>>()}));
                    }
                }
                if empty > 0 {
                    r.count("sequences-with-empty-separator");
                }
            }
            let expect: Vec<String> = toks.iter().map(|t| t.debug.clone()).collect();
            check_tokens(&text, &expect).map_err(|e| e.0)
        });
        if let Some((tape, _)) = fail {
            let (toks, text, _) = gen_seq(&tape);
            let expect: Vec<String> = toks.iter().map(|t| t.debug.clone()).collect();
            if let Err((class, got)) = check_tokens(&text, &expect) {
                r.violation(viol("token-sequences", &class, json!({"text": text, "tokens": expect}), format!("{expect:?}"), got));
            }
        }
        // (3) random longer strings
        let fail = run_tapes(seed.wrapping_mul(557) + shard as u64, cases / 4, 60, |tape, shrinking| {
            let mut t = Tape::new(tape);
            let raw = gen_raw(&mut t, 14);
            if !shrinking {
                r.eval();
                r.count("strings-random");
                if raw.contains('\\') {
                    r.nontrivial(&format!("\"{raw}\""));
                }
            }
            check_string(&raw).map_err(|e| e.0)
        });
        if let Some((tape, _)) = fail {
            let mut t = Tape::new(&tape);
            let raw = gen_raw(&mut t, 14);
            if let Err((class, e, g)) = check_string(&raw) {
                r.violation(viol("strings-random", &class, json!({"raw": raw}), e, g));
            }
        }
    });
    // (4) nothing is silently dropped: complete grid of illegal characters / unterminated strings between valid statements
    let stmts = ["print(1)", "stel x = 2", "x", "f(1, 2)", "als ja { 1 }"];
    let mut bad: Vec<String> = ILLEGAL.iter().map(|s| s.to_string()).collect();
    bad.extend(["\"abc", "\"a\\\"", "\"", "& &", "| |"].iter().map(|s| s.to_string()));
    // every control character that is not one of the six blanks (and DEL, and two invisible format characters that are not blanks either)
    bad.extend((0u32..0x20).filter(|c| ![0x09, 0x0A, 0x0B, 0x0C, 0x0D].contains(c)).chain([0x7F, 0x200B, 0xFEFF, 0xA0]).filter_map(char::from_u32).map(|c| c.to_string()));
    // a token that cannot stand there must be reported as well, not taken for the end of the program
    bad.extend(["}", ")", "]", ",", "} }", "= ="].iter().map(|s| s.to_string()));
    for a in stmts {
        for b in stmts {
            for x in &bad {
                for text in [format!("{a} {x} {b}"), format!("{a}; {x}"), format!("{a}\n{x}\n{b}")] {
                    rep.eval();
                    rep.count("nodrop");
                    rep.nontrivial(&text);
                    if let Err(g) = check_nodrop(&text) {
                        rep.violation(viol("nodrop", "input-dropped", json!({"nodrop": text}), "a syntax error: the text contains something that is not a token".into(), g));
                    }
                }
            }
        }
    }
    rep.sample(json!({"nodrop": "print(1) § print(2)", "expected": "error"}));
    // (5) literals on their way through the command-line program: a text literal in a FILE holds exactly the characters between
    // its quotes, whatever they are (line ends of any kind, tabs, NUL); the program given the file must show what the library
    // evaluates for the same text
    if std::env::var("NLV_NO_CLI").is_err() {
        let pieces = ["\r\n", "\n", "\r", "\t", "\u{0}", "\u{85}", "\u{2028}", "a", "é", " ", "\\\\", "\\n", "\\\""];
        let mut runner = crate::tape::runner(ctx.seed.wrapping_mul(32_452_843), 1);
        use proptest::prelude::RngCore;
        for k in 0..ctx.pick(120u32, 3_000u32) {
            let mut b = [0u8; 8];
            runner.rng().fill_bytes(&mut b);
            let n = 1 + (b[0] as usize) % 6;
            let raw: String = (0..n).map(|j| pieces[(b[1 + j] as usize * pieces.len()) >> 8]).collect();
            let sep = ["\r\n", "\n", "; ", "\r"][k as usize % 4];
            let text = format!("stel t = \"{raw}\"{sep}print(\"{{}}\", lengte(t)){sep}t");
            rep.eval();
            rep.count("literals-through-the-command-line");
            rep.nontrivial(&text);
            if let Err(mut v) = crate::props::c01::cli_file_case(&text) {
                v.property = "C08".into();
                rep.violation(v);
                break;
            }
        }
    }
    rep
}
