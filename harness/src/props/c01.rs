//! C01 — running a program yields exactly what its source text denotes.
use crate::difftest::*;
use crate::gen::Profile;
use crate::refint::RefObs;
use crate::report::*;

pub fn nontrivial(r: &RefObs) -> bool {
    (r.stats.calls >= 1 || r.stats.iterations >= 1) && r.stats.features.len() >= 2
}

pub fn replay(case: &serde_json::Value) -> Option<Violation> {
    replay_src("C01", case)
}

pub fn run(ctx: &Ctx) -> Report {
    let mut rep = Report::new(
        "C01",
        "exploration",
        "type-directed programs generated from proptest choice tapes (profile `general`: all statement forms, operators, builtins, functions, recursion, arrays, strings, \
         with at most one injected fault), printed canonically, evaluated by nederlang::eval and by the definitional reference interpreter; \
         results compared structurally (value graph with sharing, output bytes, error kind). non-trivial = the run executed >=1 call or loop iteration and touched >=2 feature classes; distinct by source text",
    );
    rep.assumptions.push("the reference interpreter (harness/src/refint.rs) is the specification; behaviours listed in DESIGN.md 4.3 (U1-U21) are discarded, not judged".into());
    let known = load_known_findings();
    let cases = ctx.pick(400_000u32, 12_000_000u32) / ctx.shards as u32;
    let seed = ctx.seed;
    par_shards(ctx.shards, rep, move |shard, r| {
        let cfg = DiffCfg { prop: "C01", driver: "random-general", profile: Profile::general(), cases, max_len: 600, seed: seed.wrapping_mul(7919) + shard as u64, layout: true };
        run_diff_tapes(r, &cfg, &nontrivial, &known);
    })
}
