//! C01 — running a program yields exactly what its source text denotes.
use crate::diff::{diff_source_budget, Verdict};
use crate::difftest::*;
use crate::gen::Profile;
use crate::refint::RefObs;
use crate::report::*;

pub fn nontrivial(r: &RefObs) -> bool {
    (r.stats.calls >= 1 || r.stats.iterations >= 1) && r.stats.features.len() >= 2
}

pub fn replay(case: &serde_json::Value) -> Option<Violation> {
    if case.get("kind").and_then(|k| k.as_str()) == Some("cli-file") {
        return cli_file_case(case.get("text")?.as_str()?).err();
    }
    replay_src("C01", case)
}

/// Programs that are large in one dimension, with an observable result: tables with more than 256 / 1000 entries (globals,
/// locals, parameters, constants of every type, functions, list elements), long statement sequences, long jumps, many
/// iterations, deep recursion, deep scopes. Judged like every other program: against the reference interpreter.
fn scale_programs() -> Vec<(String, String)> {
    let mut v: Vec<(String, String)> = Vec::new();
    let pick = |n: usize| -> Vec<usize> {
        let mut k: Vec<usize> = vec![0, 1, 127, 128, 254, 255, 256, 257, 511, 512, 999, 1000, n - 1];
        k.retain(|x| *x < n);
        k.dedup();
        k
    };
    for n in [200usize, 300, 1000, 3000] {
        let sel = |f: &dyn Fn(usize) -> String| pick(n).iter().map(|i| f(*i)).collect::<Vec<_>>().join(", ");
        v.push((format!("globals:{n}"), format!("{}[{}]", (0..n).map(|i| format!("stel g{i} = {}; ", i * 3 + 1)).collect::<String>(), sel(&|i| format!("g{i}")))));
        v.push((
            format!("globals-assigned-later:{n}"),
            format!("{}{}[{}]", (0..n).map(|i| format!("stel g{i} = 0; ")).collect::<String>(), (0..n).map(|i| format!("g{i} = g{i} + {}; ", i + 7)).collect::<String>(), sel(&|i| format!("g{i}"))),
        ));
        v.push((format!("locals:{n}"), format!("functie f(a) {{ {}[{}] }}; f(5)", (0..n).map(|i| format!("stel l{i} = a + {i}; ")).collect::<String>(), sel(&|i| format!("l{i}")))));
        v.push((format!("int-constants:{n}"), format!("stel s = 0; {}s", (0..n).map(|i| format!("s = s + {}; ", 100_000 + i * 17)).collect::<String>())));
        v.push((format!("float-constants:{n}"), format!("stel a = [{}]; [{}]", (0..n).map(|i| format!("{i}.25")).collect::<Vec<_>>().join(", "), sel(&|i| format!("a[{i}]")))));
        v.push((format!("text-constants:{n}"), format!("stel a = [{}]; [lengte(a), {}]", (0..n).map(|i| format!("\"t{i}\"")).collect::<Vec<_>>().join(", "), sel(&|i| format!("a[{i}]")))));
        v.push((format!("list-elements:{n}"), format!("stel a = [{}]; [lengte(a), a[-1], {}]", (0..n).map(|i| format!("{}", i * 2)).collect::<Vec<_>>().join(", "), sel(&|i| format!("a[{i}]")))));
        v.push((format!("functions:{n}"), format!("{}[{}]", (0..n).map(|i| format!("functie f{i}(x) {{ x + {i} }}; ")).collect::<String>(), sel(&|i| format!("f{i}(1)")))));
        v.push((format!("statements:{n}"), format!("stel a = 0; {}a", (0..n).map(|i| format!("a = a + {}; ", i % 7)).collect::<String>())));
        v.push((format!("prints:{n}"), format!("{}1", (0..n.min(1000)).map(|i| format!("print(\"{{}} {{}}\", {i}, \"r{i}\"); ")).collect::<String>())));
        // a branch / a loop body / a function body that is long: jumps over thousands of bytes
        let filler: String = (0..n).map(|i| format!("a = a + {}; ", i % 5)).collect();
        v.push((format!("long-branch-not-taken:{n}"), format!("stel a = 1; als a > 5 {{ {filler} }} anders {{ a = a + 100 }}; a")));
        v.push((format!("long-branch-taken:{n}"), format!("stel a = 1; als a < 5 {{ {filler} }} anders {{ a = a + 100 }}; a")));
        v.push((format!("long-loop-body:{n}"), format!("stel a = 0; stel i = 0; zolang i < 3 {{ i = i + 1; als i == 2 {{ volgende }}; {filler} }}; [a, i]")));
        v.push((format!("long-function-body:{n}"), format!("functie f(a) {{ als a > 100 {{ antwoord a }}; {filler} a }}; [f(1), f(200)]")));
        v.push((format!("stop-over-long-body:{n}"), format!("stel a = 0; stel i = 0; zolang ja {{ i = i + 1; als i == 3 {{ stop }}; {filler} }}; [a, i]")));
    }
    for n in [1_000usize, 33_000, 70_000] {
        // a call made from far into straight-line code, and code that goes on after it
        let filler = "ja; ".repeat(n);
        v.push((format!("call-after-long-code:{n}"), format!("functie f(x) {{ print(\"in f {{}}\", x); x + 1 }}; stel a = f(1); {filler}stel b = f(a); {filler}[a, b, f(b)]")));
    }
    for n in [10usize, 100, 255] {
        let params: Vec<String> = (0..n).map(|i| format!("p{i}")).collect();
        v.push((format!("parameters:{n}"), format!("functie f({}) {{ [p0, p{}, p{}] }}; f({})", params.join(", "), n / 2, n - 1, (0..n).map(|i| format!("{i} * 2")).collect::<Vec<_>>().join(", "))));
    }
    for n in [1_000i64, 65_535, 65_536, 65_537, 100_000] {
        v.push((format!("iterations:{n}"), format!("stel s = 0; stel i = 0; zolang i < {n} {{ i = i + 1; s = s + i % 7 }}; [s, i]")));
    }
    for n in [100usize, 1_000, 10_000] {
        v.push((format!("recursion:{n}"), format!("functie som(n) {{ als n == 0 {{ antwoord 0 }}; n + som(n - 1) }}; som({n})")));
        v.push((format!("list-walk:{n}"), format!("stel l = []; stel i = 0; zolang i < {n} {{ l = [i, l]; i = i + 1 }}; stel k = 0; stel s = 0; zolang lengte(l) > 0 {{ s = s + l[0]; l = l[1]; k = k + 1 }}; [k, s]")));
        v.push((format!("text-length:{n}"), format!("stel t = \"{}é\"; [lengte(t), t[-1], t[{}], t[0]]", "ab".repeat(n), n)));
    }
    for depth in [20usize, 100, 150] {
        // a variable per level of nested blocks / nested functions, all read at the innermost level
        let open: String = (0..depth).map(|i| format!("{{ stel b{i} = {i}; ")).collect();
        let sum: String = (0..depth).map(|i| format!("b{i}")).collect::<Vec<_>>().join(" + ");
        v.push((format!("nested-scopes:{depth}"), format!("stel r = 0; {open}r = {sum}{}; r", " }".repeat(depth))));
        let open: String = (0..depth.min(60)).map(|i| format!("functie f{i}(x{i}) {{ ")).collect();
        let close: String = (0..depth.min(60)).rev().map(|i| format!(" f{}(x{i} + 1) }}", i + 1)).collect();
        v.push((format!("nested-functions:{}", depth.min(60)), format!("{open}functie f{}(z) {{ z * 2 }}{close}; f0(1)", depth.min(60))));
    }
    v
}

fn scale_family(rep: &mut Report) {
    for (name, src) in scale_programs() {
        rep.eval();
        rep.count("scale-programs");
        rep.nontrivial(&name);
        let prog = match crate::dbgparse::parse_source(&src) {
            Ok(p) => p,
            Err(e) => {
                if std::env::var("NLV_SCALE_TIMES").is_ok() {
                    eprintln!("{name}: not parsed: {}", e.chars().take(200).collect::<String>());
                }
                // the text is beyond a limit of the front end: the implementation must say so in an orderly way (C05), nothing to compare
                rep.count("scale-programs:not-parsed");
                continue;
            }
        };
        let out = diff_source_budget(&prog, src.clone(), 40_000_000, 40_000_000);
        match out.verdict {
            Verdict::Agree => rep.count("scale-programs:agree"),
            Verdict::Discard(why) => {
                if std::env::var("NLV_SCALE_TIMES").is_ok() {
                    eprintln!("{name}: discarded: {why}");
                }
                rep.count(&format!("scale-programs:discard:{}", why.split(':').next().unwrap_or("")))
            }
            Verdict::Violation { class, expected, observed } => {
                let clip = |t: String| t.chars().take(600).collect::<String>();
                rep.violation(Violation { property: "C01".into(), driver: "scale".into(), class: format!("scale:{class}"), case: serde_json::json!({"src": src, "family": name}), expected: clip(expected), observed: clip(observed) });
            }
        }
    }
    // the repository's own programs (examples/*.nl, which its test suite skips, the README's code blocks, the test strings)
    for src in crate::props::c05::corpus_programs() {
        rep.eval();
        rep.count("repository-programs");
        let prog = match crate::dbgparse::parse_source(&src) {
            Ok(p) => p,
            Err(_) => {
                rep.count("repository-programs:not-parsed");
                continue;
            }
        };
        let out = diff_source_budget(&prog, src.clone(), 20_000_000, 20_000_000);
        match out.verdict {
            Verdict::Agree => {
                rep.count("repository-programs:agree");
                rep.nontrivial(&src);
            }
            Verdict::Discard(why) => rep.count(&format!("repository-programs:discard:{}", why.split(':').next().unwrap_or(""))),
            // the test suite's negative inputs often have two faults at once (`antwoord fib(1)` at top level with an unknown
            // name): which of the two errors is reported is not fixed (U13)
            Verdict::Violation { class, .. } if class == "mismatch:error-kind" => rep.count("repository-programs:error-kind-differs (U13)"),
            Verdict::Violation { class, expected, observed } => {
                let clip = |t: String| t.chars().take(600).collect::<String>();
                rep.violation(Violation { property: "C01".into(), driver: "repository-programs".into(), class, case: serde_json::json!({"src": src}), expected: clip(expected), observed: clip(observed) });
            }
        }
    }
    rep.sample(serde_json::json!({"scale": "stel g0 = 1 ... stel g999 = 2998; [g0, g1, g127, g128, g254, g255, g256, g257, g511, g512, g999]"}));
}

// ---------------------------------------------------------------------------------------
// The command-line program given a file (src/bin/nederlang.rs run_file): what it writes must be what the library evaluates
// for the same text - the printed output, then the value (an empty line for null), or one error of the same kind on stderr.

pub fn cli_file_case(text: &str) -> Result<Option<()>, Violation> {
    use std::io::Read;
    use std::os::unix::process::CommandExt;
    let o = crate::engine::run_eval(text, &crate::engine::RunCfg { budget: 300_000, audit_heap: true });
    let mut want_out = o.output.clone();
    let mut want_err: Vec<&'static str> = Vec::new();
    match &o.outcome {
        crate::engine::Outcome::Value(v) => match crate::props::c17::shown(v, &mut Vec::new(), &mut std::collections::HashMap::new(), true) {
            Some(t) => {
                want_out.push_str(&t);
                want_out.push('\n');
            }
            None => return Ok(None),
        },
        crate::engine::Outcome::Error(k) => want_err.push(k.name()),
        _ => return Ok(None),
    }
    let file = crate::report::verif_dir().join(format!("work/cli-file-{}-{:?}.nl", std::process::id(), std::thread::current().id()).replace(['(', ')'], ""));
    let _ = std::fs::write(&file, text.as_bytes());
    let child = std::process::Command::new("timeout")
        .process_group(0)
        .arg("--signal=KILL")
        .arg("60")
        .arg(crate::props::c17::repl_exe())
        .arg(&file)
        .stdin(std::process::Stdio::null())
        .stdout(std::process::Stdio::piped())
        .stderr(std::process::Stdio::piped())
        .spawn();
    let mut child = match child {
        Ok(c) => c,
        Err(e) => {
            eprintln!("C01: cannot run the command-line program: {e} (the check script builds it)");
            std::process::exit(2)
        }
    };
    let mut so = child.stdout.take();
    let mut se = child.stderr.take();
    let t_out = std::thread::spawn(move || {
        let mut b = Vec::new();
        if let Some(o) = so.as_mut() {
            let _ = o.take(1 << 22).read_to_end(&mut b);
            let _ = std::io::copy(o, &mut std::io::sink());
        }
        String::from_utf8_lossy(&b).to_string()
    });
    let t_err = std::thread::spawn(move || {
        let mut b = Vec::new();
        if let Some(o) = se.as_mut() {
            let _ = o.take(1 << 20).read_to_end(&mut b);
            let _ = std::io::copy(o, &mut std::io::sink());
        }
        String::from_utf8_lossy(&b).to_string()
    });
    let st = child.wait();
    let got_out = t_out.join().unwrap_or_default();
    let got_err = t_err.join().unwrap_or_default();
    let _ = std::fs::remove_file(&file);
    let code = st.ok().and_then(|s| s.code());
    let bad = |class: &str, expected: String, observed: String| Violation {
        property: "C01".into(),
        driver: "command-line-file".into(),
        class: class.into(),
        case: serde_json::json!({"kind": "cli-file", "text": text}),
        expected: expected.chars().take(600).collect(),
        observed: observed.chars().take(600).collect(),
    };
    if !matches!(code, Some(c) if (0..100).contains(&c)) || got_err.contains("panicked at") {
        return Err(bad("cli-file:does-not-end-in-order", "an orderly end".into(), format!("status {code:?}; stderr {}", got_err.chars().take(300).collect::<String>())));
    }
    if got_out != want_out {
        return Err(bad("cli-file:stdout", format!("{want_out:?}"), format!("{got_out:?}")));
    }
    let got_kinds = crate::props::c17::kinds_named(&got_err);
    if got_kinds != want_err {
        return Err(bad("cli-file:stderr", format!("{want_err:?}"), format!("{got_kinds:?}")));
    }
    Ok(Some(()))
}

fn cli_file_family(rep: &mut Report, ctx: &Ctx) {
    use proptest::prelude::RngCore;
    let mut texts: Vec<String> = vec![
        "stel t = \"regel een\r\ntwee\"\r\nprint(\"{}\", lengte(t))\r\nt[9]".into(),
        "stel t = \"a\rb\"\nlengte(t)".into(),
        "stel t = \"tab\there\"; print(t); [lengte(t), t]".into(),
        "print(\"een\")\r\nprint(\"twee\")\r\n\r\n3 // slot\r\n".into(),
        "\u{feff}1".into(),
        "1 +".into(),
        "onbekend".into(),
        "print(\"voor\"); 1 / 0".into(),
        "[1, [2.5, \"drie\"], ja, []]".into(),
        "stel a = [1]; a[0] = a; a".into(),
        "\"\"".into(),
        "als nee { 1 }".into(),
    ];
    let n = ctx.pick(600u32, 12_000u32);
    let mut runner = crate::tape::runner(ctx.seed.wrapping_mul(920_419_823), 1);
    let profile = Profile::general();
    for k in 0..n {
        let mut tape = vec![0u8; 300];
        runner.rng().fill_bytes(&mut tape);
        let (prog, _) = crate::gen::gen_program(&tape, &profile);
        let text = crate::printer::print_canonical(&prog);
        // a third with Windows line ends between the statements
        texts.push(if k % 3 == 0 { text.replace(" ; ", " ;\r\n") } else { text });
    }
    let texts = std::sync::Arc::new(texts);
    let shards = ctx.shards;
    let failures = std::sync::Arc::new(std::sync::atomic::AtomicUsize::new(0));
    let sub = par_shards(shards, Report::new("C01", "exploration", ""), {
        let texts = texts.clone();
        let failures = failures.clone();
        move |shard, r| {
            for (i, text) in texts.iter().enumerate() {
                if i % shards != shard || failures.load(std::sync::atomic::Ordering::Relaxed) >= 3 {
                    continue;
                }
                match cli_file_case(text) {
                    Ok(Some(())) => {
                        r.eval();
                        r.count("command-line-file");
                        if text.len() > 40 {
                            r.nontrivial(&format!("cli-file:{text}"));
                        }
                    }
                    Ok(None) => r.count("command-line-file:not-judged"),
                    Err(v) => {
                        failures.fetch_add(1, std::sync::atomic::Ordering::Relaxed);
                        r.violation(v);
                    }
                }
                crate::engine::note_current("done", "");
            }
        }
    });
    rep.merge(sub);
    rep.sample(serde_json::json!({"command-line-file": "stel t = \"regel een<CR><LF>twee\"; lengte(t)", "expects": "what the library evaluates: 15"}));
}

pub fn run(ctx: &Ctx) -> Report {
    let mut rep = Report::new(
        "C01",
        "exploration",
        "type-directed programs generated from proptest choice tapes (profile `general`: all statement forms, operators, builtins, functions, recursion, arrays, strings, \
         with at most one injected fault), printed canonically, evaluated by nederlang::eval and by the definitional reference interpreter; \
         plus about 90 programs that are large in one dimension (200 ... 3000 globals, locals, constants of every type, functions, list elements, statements; branches, loop and function bodies of thousands of bytes; 255 parameters; 100 000 iterations; recursion and lists of 10 000; 150 nested scopes), against the same oracle; \
         the command-line program given a file (generated programs, a third with CR LF line ends, and texts with line ends inside literals) must write what the library evaluates for the same text; \
         results compared structurally (value graph with sharing, output bytes, error kind). non-trivial = the run executed >=1 call or loop iteration and touched >=2 feature classes; distinct by source text",
    );
    rep.assumptions.push("the reference interpreter (harness/src/refint.rs) is the specification; behaviours listed in DESIGN.md 4.3 (U1-U21) are discarded, not judged".into());
    let known = load_known_findings();
    let cases = ctx.pick(400_000u32, 12_000_000u32) / ctx.shards as u32;
    let seed = ctx.seed;
    scale_family(&mut rep);
    let mut rep = par_shards(ctx.shards, rep, move |shard, r| {
        let cfg = DiffCfg { prop: "C01", driver: "random-general", profile: Profile::general(), cases, max_len: 600, seed: seed.wrapping_mul(7919) + shard as u64, layout: true };
        run_diff_tapes(r, &cfg, &nontrivial, &known);
    });
    if std::env::var("NLV_NO_CLI").is_err() {
        cli_file_family(&mut rep, ctx);
    }
    rep
}
