//! nlv: verification harness for dannyvankooten/nederlang (property-based testing and fuzzing).
pub mod ast;
pub mod bytecode;
pub mod dbgparse;
pub mod diff;
pub mod difftest;
pub mod engine;
pub mod gen;
pub mod printer;
pub mod refint;
pub mod lattice;
pub mod minimize;
pub mod props;
pub mod report;
pub mod shapes;
pub mod tape;
pub mod transform;
pub mod verifier;

/// The process allocator of the harness: the system allocator, with fresh and released memory filled with a pattern.
///
/// Reading uninitialised or released memory is undefined behaviour whose effect depends on what the allocator happens
/// to hand out, so a check that meets it fails in a way that does not reproduce. With the pattern, such a read yields
/// the same words in every process: as an `Object`, `0xFEFE…FE` is an array and `0xFDFD…FD` a string at a
/// non-canonical address, which the shadow heap (H5) reports as a dereference of an unknown block.
/// Correct code never observes the difference.
pub struct PoisonAlloc;

const FRESH: u8 = 0xFE;
const RELEASED: u8 = 0xFD;

unsafe impl std::alloc::GlobalAlloc for PoisonAlloc {
    unsafe fn alloc(&self, l: std::alloc::Layout) -> *mut u8 {
        let p = std::alloc::System.alloc(l);
        if !p.is_null() {
            std::ptr::write_bytes(p, FRESH, l.size());
        }
        p
    }
    unsafe fn alloc_zeroed(&self, l: std::alloc::Layout) -> *mut u8 {
        std::alloc::System.alloc_zeroed(l)
    }
    unsafe fn dealloc(&self, p: *mut u8, l: std::alloc::Layout) {
        std::ptr::write_bytes(p, RELEASED, l.size());
        std::alloc::System.dealloc(p, l)
    }
    unsafe fn realloc(&self, p: *mut u8, l: std::alloc::Layout, new_size: usize) -> *mut u8 {
        if new_size < l.size() {
            std::ptr::write_bytes(p.add(new_size), RELEASED, l.size() - new_size);
        }
        let q = std::alloc::System.realloc(p, l, new_size);
        if !q.is_null() && new_size > l.size() {
            std::ptr::write_bytes(q.add(l.size()), FRESH, new_size - l.size());
        }
        q
    }
}

#[global_allocator]
static GLOBAL: PoisonAlloc = PoisonAlloc;
