//! nlv: verification harness for dannyvankooten/nederlang (property-based testing and fuzzing).
pub mod ast;
pub mod bytecode;
pub mod dbgparse;
pub mod diff;
pub mod difftest;
pub mod engine;
pub mod gen;
pub mod printer;
pub mod refint;
pub mod lattice;
pub mod minimize;
pub mod props;
pub mod report;
pub mod shapes;
pub mod tape;
pub mod transform;
pub mod verifier;
