
use nlv::report::*;
use nlv::{engine, props};

fn usage() -> ! {
    eprintln!("usage: nlv <C01..C17> [--tier quick|thorough] [--replay <file>]");
    std::process::exit(2)
}

type RunFn = fn(&Ctx) -> Report;
type ReplayFn = fn(&serde_json::Value) -> Option<Violation>;

fn table(id: &str) -> Option<(RunFn, ReplayFn)> {
    Some(match id {
        "C16" => (props::c16::run_check, props::c16::replay),
        "C17" => (props::c17::run_check, props::c17::replay),
        "C01" => (props::c01::run, props::c01::replay),
        "C02" => (props::c02::run_check, props::c02::replay),
        "C03" => (props::c03::run_check, props::c03::replay),
        "C04" => (props::c04::run_check, props::c04::replay),
        "C05" => (props::c05::run_check, props::c05::replay),
        "C06" => (props::c06::run, props::c06::replay),
        "C07" => (props::c07::run, props::c07::replay),
        "C08" => (props::c08::run, props::c08::replay),
        "C09" => (props::c09::run_check, props::c09::replay),
        "C10" => (props::c10::run_check, props::c10::replay),
        "C11" => (props::c11::run_check, props::c11::replay),
        "C12" => (props::c12::run_check, props::c12::replay),
        "C13" => (props::c13::run_check, props::c13::replay),
        "C14" => (props::c14::run_check, props::c14::replay),
        "C15" => (props::c15::run, props::c15::replay),
        _ => return None,
    })
}

/// marks a case that was found in a binary other than the default one, so that its replay runs there
fn with_profile(mut case: serde_json::Value) -> serde_json::Value {
    let p = current_profile();
    if p != "checked" {
        case["profile"] = serde_json::json!(p);
    }
    case
}

fn exit_status_text(st: &std::process::ExitStatus) -> String {
    use std::os::unix::process::ExitStatusExt;
    match (st.code(), st.signal()) {
        (Some(c), _) => format!("exit code {c}"),
        (None, Some(s)) => format!("signal {s}"),
        _ => "unknown status".into(),
    }
}

/// Supervisor: runs the actual check in a child process. A child that dies (signal, abort,
/// stack overflow) is a finding of the input it was working on, not a broken check.
fn supervise(id: &str, args: &[String]) -> ! {
    let exe = std::env::current_exe().expect("current_exe");
    let jdir = engine::journal_dir();
    let _ = std::fs::create_dir_all(&jdir);
    std::env::set_var("NLV_JOURNAL_DIR", &jdir);
    let mut child = std::process::Command::new(&exe).args(args).arg("--child").spawn().unwrap_or_else(|e| {
        eprintln!("cannot start worker: {e}");
        std::process::exit(2)
    });
    let pid = child.id();
    // watchdog: an input that keeps one worker thread busy for minutes is a hang candidate
    let stale_after = std::time::Duration::from_secs(150);
    let mut hang: Option<std::path::PathBuf> = None;
    let st = loop {
        match child.try_wait() {
            Ok(Some(st)) => break st,
            Ok(None) => {}
            Err(e) => {
                eprintln!("wait: {e}");
                std::process::exit(2)
            }
        }
        std::thread::sleep(std::time::Duration::from_millis(400));
        if let Ok(rd) = std::fs::read_dir(&jdir) {
            for e in rd.filter_map(|e| e.ok()) {
                let p = e.path();
                if !p.file_name().and_then(|n| n.to_str()).map(|n| n.starts_with(&format!("{pid}-"))).unwrap_or(false) {
                    continue;
                }
                let old = e.metadata().ok().and_then(|m| m.modified().ok()).and_then(|t| t.elapsed().ok()).map(|d| d > stale_after).unwrap_or(false);
                if old {
                    let text = std::fs::read_to_string(&p).unwrap_or_default();
                    if !text.starts_with("done\n") {
                        hang = Some(p);
                    }
                }
            }
        }
        if hang.is_some() {
            let _ = child.kill();
            let _ = child.wait();
            break std::process::ExitStatus::default();
        }
    };
    if let Some(f) = hang {
        let text = std::fs::read_to_string(&f).unwrap_or_default();
        let (tag, body) = text.split_once('\n').unwrap_or(("eval", ""));
        let probe_file = f.with_extension("probe");
        let _ = std::fs::write(&probe_file, &text);
        let mut pc = std::process::Command::new(&exe).arg(id).arg("--probe").arg(&probe_file).arg("--child").spawn().expect("probe");
        let started = std::time::Instant::now();
        let mut finished = false;
        while started.elapsed() < std::time::Duration::from_secs(60) {
            if let Ok(Some(_)) = pc.try_wait() {
                finished = true;
                break;
            }
            std::thread::sleep(std::time::Duration::from_millis(200));
        }
        let _ = pc.kill();
        let _ = pc.wait();
        let _ = std::fs::remove_dir_all(&jdir);
        if finished {
            eprintln!("watchdog: a worker made no progress for {}s but its input finishes in a fresh process (machinery failure, inconclusive)", stale_after.as_secs());
            std::process::exit(2);
        }
        let v = Violation {
            property: id.to_string(),
            driver: "supervisor".into(),
            class: "hang".into(),
            case: with_profile(serde_json::json!({"kind": "process-death", "tag": tag, "text": body})),
            expected: "evaluation terminates (lexing, parsing and compiling always do; the VM runs under an instruction budget)".into(),
            observed: "no progress for minutes in the check and for 60 s alone in a fresh process".into(),
        };
        let dir = verif_dir();
        let _ = std::fs::create_dir_all(dir.join("replays"));
        let name = format!("replays/{}-{:016x}.json", id, hash_str(&format!("{}", v.case)));
        let path = dir.join(&name);
        let _ = std::fs::write(&path, serde_json::to_string_pretty(&v.to_json()).unwrap());
        println!("VIOLATION property={} replay={}", id, path.display());
        println!("  driver=supervisor class=hang");
        println!("  case={}", v.case);
        std::process::exit(1);
    }
    let journal: Vec<std::path::PathBuf> = std::fs::read_dir(&jdir)
        .map(|d| d.filter_map(|e| e.ok()).map(|e| e.path()).filter(|p| p.file_name().and_then(|n| n.to_str()).map(|n| n.starts_with(&format!("{pid}-"))).unwrap_or(false)).collect())
        .unwrap_or_default();
    let jd = jdir.clone();
    let cleanup = move |_files: &[std::path::PathBuf]| {
        let _ = std::fs::remove_dir_all(&jd);
    };
    if let Some(code) = st.code() {
        if code == 0 || code == 1 || code == 2 {
            cleanup(&journal);
            std::process::exit(code);
        }
    }
    // the worker died: find the recorded input that kills a fresh process
    eprintln!("worker process ended with {}", exit_status_text(&st));
    for f in &journal {
        let text = std::fs::read_to_string(f).unwrap_or_default();
        let (tag, body) = text.split_once('\n').unwrap_or(("eval", ""));
        let probe_file = f.with_extension("probe");
        let _ = std::fs::write(&probe_file, &text);
        let pst = std::process::Command::new(&exe).arg(id).arg("--probe").arg(&probe_file).arg("--child").status();
        let _ = std::fs::remove_file(&probe_file);
        let died = match pst {
            Ok(s) => s.code().is_none() || !matches!(s.code(), Some(0)),
            Err(_) => false,
        };
        if died {
            let case = with_profile(serde_json::json!({"kind": "process-death", "tag": tag, "text": body}));
            let v = Violation {
                property: id.to_string(),
                driver: "supervisor".into(),
                class: "process-died".into(),
                case,
                expected: "a value or one of the documented error kinds".into(),
                observed: format!("the evaluating process ended with {}", pst.map(|s| exit_status_text(&s)).unwrap_or_default()),
            };
            let dir = verif_dir();
            let _ = std::fs::create_dir_all(dir.join("replays"));
            let name = format!("replays/{}-{:016x}.json", id, hash_str(&format!("{}", v.case)));
            let path = dir.join(&name);
            let _ = std::fs::write(&path, serde_json::to_string_pretty(&v.to_json()).unwrap());
            println!("VIOLATION property={} replay={}", id, path.display());
            println!("  driver=supervisor class=process-died");
            println!("  case={}", v.case);
            println!("  observed={}", v.observed);
            cleanup(&journal);
            std::process::exit(1);
        }
    }
    cleanup(&journal);
    // A death that no single input reproduces (state shared between cases or threads, memory that is not deterministic):
    // the whole check is run again, at most twice. Only a run that ends with a reproducible violation counts; otherwise the
    // unexplained death stands and the check is inconclusive.
    let attempt: u32 = std::env::var("NLV_ATTEMPT").ok().and_then(|s| s.parse().ok()).unwrap_or(0);
    if attempt < 2 {
        eprintln!("the worker died but none of its recorded inputs reproduces it in a fresh process; running the check again (attempt {})", attempt + 2);
        let st = std::process::Command::new(&exe).args(args).env("NLV_ATTEMPT", (attempt + 1).to_string()).env_remove("NLV_JOURNAL_DIR").status();
        if let Ok(st) = st {
            if st.code() == Some(1) {
                std::process::exit(1);
            }
        }
        std::process::exit(2)
    }
    eprintln!("the worker died but none of its recorded inputs reproduces it in a fresh process (machinery failure)");
    std::process::exit(2)
}

fn main() {
    let mut args: Vec<String> = std::env::args().skip(1).collect();
    if args.is_empty() {
        usage();
    }
    let id = args[0].clone();
    let is_child = args.iter().any(|a| a == "--child");
    let is_inner = args.iter().any(|a| a == "--inner");
    let supervised_inner = args.iter().any(|a| a == "--supervised");
    // a replay of a case that was found in the binary of another build profile runs in that binary
    if !is_child {
        if let Some(pos) = args.iter().position(|a| a == "--replay") {
            if let Some(path) = args.get(pos + 1) {
                let profile = std::fs::read_to_string(path)
                    .ok()
                    .and_then(|t| serde_json::from_str::<serde_json::Value>(&t).ok())
                    .and_then(|v| v.get("case").and_then(|c| c.get("profile")).and_then(|p| p.as_str()).map(|s| s.to_string()));
                if let Some(profile) = profile {
                    if profile != current_profile() {
                        let exe = verif_dir().join("harness/target").join(&profile).join("nlv");
                        match std::process::Command::new(&exe).args(&args).status() {
                            Ok(st) => std::process::exit(st.code().unwrap_or(2)),
                            Err(e) => {
                                eprintln!("cannot run {}: {e}", exe.display());
                                std::process::exit(2)
                            }
                        }
                    }
                }
            }
        }
    }
    if !is_child && (!is_inner || supervised_inner) {
        supervise(&id, &args);
    }
    args.retain(|a| a != "--child");
    if is_child {
        engine::journal_enable();
    }
    let mut tier = match std::env::var("VERIF_TIER").as_deref() {
        Ok("thorough") => Tier::Thorough,
        _ => Tier::Quick,
    };
    let mut replay: Option<String> = None;
    let mut probe: Option<String> = None;
    let mut batch: Option<String> = None;
    let mut only: Option<usize> = None;
    let mut inner = false;
    let mut i = 1;
    while i < args.len() {
        match args[i].as_str() {
            "--tier" => {
                i += 1;
                tier = match args.get(i).map(|s| s.as_str()) {
                    Some("quick") => Tier::Quick,
                    Some("thorough") => Tier::Thorough,
                    _ => usage(),
                };
            }
            "--inner" => inner = true,
            "--supervised" => {}
            "--replay" => {
                i += 1;
                replay = Some(args.get(i).cloned().unwrap_or_else(|| usage()));
            }
            "--probe" => {
                i += 1;
                probe = Some(args.get(i).cloned().unwrap_or_else(|| usage()));
            }
            "--batch" => {
                i += 1;
                batch = Some(args.get(i).cloned().unwrap_or_else(|| usage()));
            }
            "--only" => {
                i += 1;
                only = args.get(i).and_then(|s| s.parse().ok());
            }
            _ => usage(),
        }
        i += 1;
    }
    let seed = std::env::var("VERIF_SEED").ok().and_then(|s| s.parse::<u64>().ok()).unwrap_or(1);
    let shards = std::env::var("VERIF_SHARDS").ok().and_then(|s| s.parse().ok()).unwrap_or(16);
    let (run, replay_fn) = match table(&id) {
        Some(t) => t,
        None => {
            eprintln!("unknown property {id}");
            std::process::exit(2)
        }
    };
    engine::install_panic_hook();
    if let Some(b) = batch {
        engine::with_big_stack(move || props::c16::child_eval(&b, only));
        std::process::exit(0);
    }
    if let Some(p) = probe {
        let text = std::fs::read_to_string(&p).unwrap_or_default();
        let (tag, body) = text.split_once('\n').unwrap_or(("eval", ""));
        let (tag, body) = (tag.to_string(), body.to_string());
        engine::with_big_stack(move || engine::probe(&tag, &body));
        std::process::exit(0);
    }
    let mut ctx = Ctx { tier, seed, shards, strict: false, inner, known_printed: 0 };

    if let Some(path) = replay {
        ctx.strict = true;
        let text = std::fs::read_to_string(&path).unwrap_or_else(|e| {
            eprintln!("cannot read {path}: {e}");
            std::process::exit(2)
        });
        let v: serde_json::Value = serde_json::from_str(&text).unwrap_or_else(|e| {
            eprintln!("bad replay file: {e}");
            std::process::exit(2)
        });
        let case = v.get("case").cloned().unwrap_or(v.clone());
        let res = engine::with_big_stack(move || {
            engine::install_gc_observer();
            if case.get("kind").and_then(|k| k.as_str()) == Some("process-death") {
                // if the defect is still there this process dies and the supervisor reports it
                let tag = case.get("tag").and_then(|x| x.as_str()).unwrap_or("eval").to_string();
                let text = case.get("text").and_then(|x| x.as_str()).unwrap_or("").to_string();
                engine::note_current(&tag, &text);
                engine::probe(&tag, &text);
                return None;
            }
            replay_fn(&case)
        });
        match res {
            Some(viol) => {
                println!("VIOLATION property={} replay={}", id, path);
                println!("  driver={} class={}", viol.driver, viol.class);
                println!("  expected={}", viol.expected);
                println!("  observed={}", viol.observed);
                std::process::exit(1);
            }
            None => {
                println!("{id}: replay of {path} shows no violation");
                std::process::exit(0);
            }
        }
    }

    if inner {
        let rep = run(&ctx);
        println!("INNER {}", inner_json(&rep));
        std::process::exit(0);
    }

    // replay the committed reproducer of every open known finding of this property
    let mut known_lines = Vec::new();
    for kf in load_known_findings().into_iter().filter(|k| k.property == id) {
        let p = verif_dir().join(&kf.replay);
        let case = std::fs::read_to_string(&p)
            .ok()
            .and_then(|t| serde_json::from_str::<serde_json::Value>(&t).ok())
            .and_then(|v| v.get("case").cloned());
        let still = match case {
            Some(case) => engine::with_big_stack(move || {
                engine::install_gc_observer();
                let r = replay_fn(&case);
                // (this thread ends here: its journal must not look like an input that makes no progress)
                engine::note_current("done", "");
                r
            })
            .map(|v| v.class == kf.class)
            .unwrap_or(false),
            None => {
                eprintln!("known finding {} has no readable reproducer at {}", kf.id, p.display());
                std::process::exit(2)
            }
        };
        if still {
            known_lines.push(format!("KNOWN-FINDING: property={} {} {}", id, kf.id, kf.what));
        }
    }
    for l in &known_lines {
        println!("{l}");
    }
    ctx.known_printed = known_lines.len();
    let rep = run(&ctx);
    let code = finish(&ctx, rep);
    std::process::exit(code);
}
