mod ast;
mod bytecode;
mod dbgparse;
mod diff;
mod difftest;
mod engine;
mod gen;
mod printer;
mod refint;
mod lattice;
mod minimize;
mod props;
mod report;
mod shapes;
mod tape;
mod transform;

use report::*;

fn usage() -> ! {
    eprintln!("usage: nlv <C01..C17> [--tier quick|thorough] [--replay <file>]");
    std::process::exit(2)
}

type RunFn = fn(&Ctx) -> Report;
type ReplayFn = fn(&serde_json::Value) -> Option<Violation>;

fn table(id: &str) -> Option<(RunFn, ReplayFn)> {
    Some(match id {
        "C01" => (props::c01::run, props::c01::replay),
        "C06" => (props::c06::run, props::c06::replay),
        "C07" => (props::c07::run, props::c07::replay),
        "C08" => (props::c08::run, props::c08::replay),
        "C09" => (props::c09::run_check, props::c09::replay),
        "C10" => (props::c10::run_check, props::c10::replay),
        "C11" => (props::c11::run_check, props::c11::replay),
        "C12" => (props::c12::run_check, props::c12::replay),
        "C15" => (props::c15::run, props::c15::replay),
        _ => return None,
    })
}

fn main() {
    let args: Vec<String> = std::env::args().skip(1).collect();
    if args.is_empty() {
        usage();
    }
    let id = args[0].clone();
    let mut tier = match std::env::var("VERIF_TIER").as_deref() {
        Ok("thorough") => Tier::Thorough,
        _ => Tier::Quick,
    };
    let mut replay: Option<String> = None;
    let mut inner = false;
    let mut i = 1;
    while i < args.len() {
        match args[i].as_str() {
            "--tier" => {
                i += 1;
                tier = match args.get(i).map(|s| s.as_str()) {
                    Some("quick") => Tier::Quick,
                    Some("thorough") => Tier::Thorough,
                    _ => usage(),
                };
            }
            "--inner" => inner = true,
            "--replay" => {
                i += 1;
                replay = Some(args.get(i).cloned().unwrap_or_else(|| usage()));
            }
            _ => usage(),
        }
        i += 1;
    }
    let seed = std::env::var("VERIF_SEED").ok().and_then(|s| s.parse::<u64>().ok()).unwrap_or(1);
    let shards = std::env::var("VERIF_SHARDS").ok().and_then(|s| s.parse().ok()).unwrap_or(16);
    let (run, replay_fn) = match table(&id) {
        Some(t) => t,
        None => {
            eprintln!("unknown property {id}");
            std::process::exit(2)
        }
    };
    engine::install_panic_hook();
    let mut ctx = Ctx { tier, seed, shards, strict: false, inner };

    if let Some(path) = replay {
        ctx.strict = true;
        let text = std::fs::read_to_string(&path).unwrap_or_else(|e| {
            eprintln!("cannot read {path}: {e}");
            std::process::exit(2)
        });
        let v: serde_json::Value = serde_json::from_str(&text).unwrap_or_else(|e| {
            eprintln!("bad replay file: {e}");
            std::process::exit(2)
        });
        let case = v.get("case").cloned().unwrap_or(v.clone());
        let res = engine::with_big_stack(move || {
            engine::install_gc_observer();
            replay_fn(&case)
        });
        match res {
            Some(viol) => {
                println!("VIOLATION property={} replay={}", id, path);
                println!("  driver={} class={}", viol.driver, viol.class);
                println!("  expected={}", viol.expected);
                println!("  observed={}", viol.observed);
                std::process::exit(1);
            }
            None => {
                println!("{id}: replay of {path} shows no violation");
                std::process::exit(0);
            }
        }
    }

    if inner {
        let rep = run(&ctx);
        println!("INNER {}", inner_json(&rep));
        std::process::exit(0);
    }

    // replay the committed reproducer of every open known finding of this property
    let mut known_lines = Vec::new();
    for kf in load_known_findings().into_iter().filter(|k| k.property == id) {
        let p = verif_dir().join(&kf.replay);
        let case = std::fs::read_to_string(&p)
            .ok()
            .and_then(|t| serde_json::from_str::<serde_json::Value>(&t).ok())
            .and_then(|v| v.get("case").cloned());
        let still = match case {
            Some(case) => engine::with_big_stack(move || {
                engine::install_gc_observer();
                replay_fn(&case)
            })
            .map(|v| v.class == kf.class)
            .unwrap_or(false),
            None => {
                eprintln!("known finding {} has no readable reproducer at {}", kf.id, p.display());
                std::process::exit(2)
            }
        };
        if still {
            known_lines.push(format!("KNOWN-FINDING: property={} {} {}", id, kf.id, kf.what));
        }
    }
    for l in &known_lines {
        println!("{l}");
    }
    let rep = run(&ctx);
    let code = finish(&ctx, rep);
    std::process::exit(code);
}
