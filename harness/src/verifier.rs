//! Static bytecode verifier (C02): every path of the compiler's output, not only the one a run takes.
//! Stack effects are the machine's specification (DESIGN.md Appendix B); opcode names and operand
//! widths come from the H4 table.
use crate::bytecode::*;
use nederlang::compiler::Bytecode;
use nederlang::object::Type;
use std::collections::{BTreeMap, VecDeque};

#[derive(Clone, Debug, PartialEq)]
pub struct Finding {
    pub class: String,
    pub detail: String,
}

#[derive(Clone, Debug, Default)]
pub struct VerifyReport {
    pub findings: Vec<Finding>,
    /// stack height not bounded on some loop (C11's residue concern, not a C02 violation)
    pub unbounded_growth: bool,
    pub units: usize,
    /// number of global variables declared so far (highest SetGlobal index + 1, or what earlier programs declared)
    pub globals: usize,
    pub cond_jumps: usize,
    pub back_edges: usize,
    pub instructions: usize,
}

const INF: i64 = i64::MAX / 4;

#[derive(Clone, Copy, Debug, PartialEq)]
struct Iv {
    lo: i64,
    hi: i64,
}

enum Flow {
    Next,
    Jump(usize),
    Branch(usize),
    End,
}

struct Effect {
    pops: i64,
    pushes: i64,
    flow: Flow,
}

fn effect(i: &Ins) -> Option<Effect> {
    let e = |pops: i64, pushes: i64| Some(Effect { pops, pushes, flow: Flow::Next });
    match i.name.as_str() {
        "Const" | "True" | "False" | "Null" | "GetLocal" | "GetGlobal" => e(0, 1),
        "Pop" | "SetLocal" | "SetGlobal" => e(1, 0),
        "JumpIfFalse" => Some(Effect { pops: 1, pushes: 0, flow: Flow::Branch(i.args[0]) }),
        "Jump" => Some(Effect { pops: 0, pushes: 0, flow: Flow::Jump(i.args[0]) }),
        "Add" | "Subtract" | "Divide" | "Multiply" | "Gt" | "Gte" | "Lt" | "Lte" | "Eq" | "Neq" | "And" | "Or" | "Modulo" | "IndexGet" => e(2, 1),
        "Not" | "Negate" => e(1, 1),
        n if n.ends_with("LocalConst") => e(0, 1),
        "Array" => e(i.args[0] as i64, 1),
        "IndexSet" => e(3, 1),
        "Call" => e(i.args[0] as i64 + 1, 1),
        "CallBuiltin" => e(i.args[1] as i64, 1),
        "ReturnValue" => Some(Effect { pops: 1, pushes: 0, flow: Flow::End }),
        "Return" | "Halt" => Some(Effect { pops: 0, pushes: 0, flow: Flow::End }),
        _ => None,
    }
}

/// opcode names of the table that the effect specification does not cover (the verifier cannot judge code that uses them)
pub fn uncovered_opcodes(t: &Table) -> Vec<String> {
    t.ops
        .iter()
        .filter(|o| effect(&Ins { at: 0, op: 0, len: 1, name: o.name.clone(), args: vec![0; o.widths.len()] }).is_none())
        .map(|o| o.name.clone())
        .collect()
}

pub fn verify(code: &Bytecode, t: &Table) -> VerifyReport {
    verify_after(code, t, 0)
}

/// `known_globals`: the number of global variables that programs compiled earlier by the same compiler have declared
/// (their code need not be part of `code` any more)
pub fn verify_after(code: &Bytecode, t: &Table, known_globals: usize) -> VerifyReport {
    let mut rep = VerifyReport::default();
    let mut add = |rep: &mut VerifyReport, class: &str, detail: String| {
        if !rep.findings.iter().any(|f| f.class == class) {
            rep.findings.push(Finding { class: class.to_string(), detail });
        }
    };
    // (1) linear decode
    let ins = match decode(&code.instructions, t) {
        Ok(i) => i,
        Err((at, why)) => {
            add(&mut rep, "decode", format!("at {at}: {why}"));
            return rep;
        }
    };
    rep.instructions = ins.len();
    let mut at_index: BTreeMap<usize, usize> = BTreeMap::new();
    for (k, i) in ins.iter().enumerate() {
        at_index.insert(i.at, k);
    }
    let n_consts = code.constants.len();
    let max_builtin = 6usize;
    // number of globals the program declares = highest SetGlobal index + 1
    let n_globals = ins.iter().filter(|i| i.name == "SetGlobal").map(|i| i.args[0] + 1).max().unwrap_or(0).max(known_globals);
    rep.globals = n_globals;
    // (2) code units: the top level and every function constant
    // the top-level unit starts where this program starts (code of earlier programs of the same compiler precedes it)
    let mut units: Vec<(usize, i64, bool)> = vec![(code.start, 0, false)]; // (entry, locals, is_function)
    for c in &code.constants {
        if c.tag() == Type::Function {
            let [ip, nl] = c.as_function();
            let u = (ip as usize, nl as i64, true);
            if !units.contains(&u) {
                units.push(u);
            }
        }
    }
    rep.units = units.len();
    let mut owner: Vec<Option<usize>> = vec![None; ins.len()];
    for (uid, (entry, locals, is_fn)) in units.iter().enumerate() {
        let start = match at_index.get(entry) {
            Some(k) => *k,
            None => {
                if code.instructions.is_empty() && *entry == 0 {
                    add(&mut rep, "falls-off-end", "empty code".into());
                } else {
                    add(&mut rep, "function-entry-not-a-boundary", format!("entry {entry}"));
                }
                continue;
            }
        };
        // (3) abstract interpretation of stack-height intervals
        let mut state: Vec<Option<Iv>> = vec![None; ins.len()];
        let mut growths: Vec<u8> = vec![0; ins.len()];
        let mut work: VecDeque<usize> = VecDeque::new();
        state[start] = Some(Iv { lo: *locals, hi: *locals });
        work.push_back(start);
        while let Some(k) = work.pop_front() {
            let i = &ins[k];
            let iv = state[k].unwrap();
            match owner[k] {
                None => owner[k] = Some(uid),
                Some(o) if o != uid => {
                    add(&mut rep, "instruction-shared-between-units", format!("instruction at {} ({}) is reachable from two code units (control leaves a function body)", i.at, i.name));
                    continue;
                }
                _ => {}
            }
            let eff = match effect(i) {
                Some(e) => e,
                None => {
                    add(&mut rep, "unknown-opcode", format!("{} at {}", i.name, i.at));
                    continue;
                }
            };
            // operand ranges
            match i.name.as_str() {
                "Const" => {
                    if i.args[0] >= n_consts {
                        add(&mut rep, "constant-index-out-of-range", format!("{} at {}", i.args[0], i.at));
                    }
                }
                "GetLocal" | "SetLocal" => {
                    if (i.args[0] as i64) >= *locals {
                        add(&mut rep, "local-index-out-of-range", format!("local {} in a unit with {} locals at {}", i.args[0], locals, i.at));
                    }
                }
                "GetGlobal" => {
                    if i.args[0] >= n_globals {
                        add(&mut rep, "global-index-out-of-range", format!("global {} of {} at {}", i.args[0], n_globals, i.at));
                    }
                }
                "CallBuiltin" => {
                    if i.args[0] > max_builtin {
                        add(&mut rep, "builtin-number-out-of-range", format!("{} at {}", i.args[0], i.at));
                    }
                }
                n if n.ends_with("LocalConst") => {
                    if (i.args[0] as i64) >= *locals {
                        add(&mut rep, "local-index-out-of-range", format!("local {} in a unit with {} locals at {}", i.args[0], locals, i.at));
                    }
                    if i.args[1] >= n_consts {
                        add(&mut rep, "constant-index-out-of-range", format!("{} at {}", i.args[1], i.at));
                    }
                }
                "Return" | "ReturnValue" => {
                    if !*is_fn {
                        add(&mut rep, "return-outside-function", format!("{} at {} in the top-level unit", i.name, i.at));
                    }
                }
                "Halt" => {
                    if *is_fn {
                        add(&mut rep, "halt-inside-function", format!("at {}", i.at));
                    }
                }
                _ => {}
            }
            // the pops must be covered on every path, and never reach below the unit's locals
            if iv.lo - eff.pops < *locals {
                add(
                    &mut rep,
                    "stack-underflow",
                    format!("{} at {} pops {} with a stack height of at least {} above {} locals on some path", i.name, i.at, eff.pops, iv.lo, locals),
                );
                continue;
            }
            let out = Iv { lo: iv.lo - eff.pops + eff.pushes, hi: if iv.hi >= INF { INF } else { iv.hi - eff.pops + eff.pushes } };
            let mut succ: Vec<usize> = Vec::new();
            let next_at = i.at + i.len;
            let mut to = |target: usize, rep: &mut VerifyReport, succ: &mut Vec<usize>| match at_index.get(&target) {
                Some(k2) => succ.push(*k2),
                None => {
                    if target >= code.instructions.len() {
                        add(rep, "falls-off-end", format!("control reaches {target}, past the end of the code ({}), from {}", code.instructions.len(), i.at));
                    } else {
                        add(rep, "jump-not-a-boundary", format!("target {target} from {}", i.at));
                    }
                }
            };
            match eff.flow {
                Flow::Next => to(next_at, &mut rep, &mut succ),
                Flow::Jump(tg) => {
                    if tg <= i.at {
                        rep.back_edges += 1;
                    }
                    to(tg, &mut rep, &mut succ)
                }
                Flow::Branch(tg) => {
                    rep.cond_jumps += 1;
                    to(tg, &mut rep, &mut succ);
                    to(next_at, &mut rep, &mut succ);
                }
                Flow::End => {}
            }
            for s in succ {
                let merged = match state[s] {
                    None => Some(out),
                    Some(old) => {
                        let mut m = Iv { lo: old.lo.min(out.lo), hi: old.hi.max(out.hi) };
                        if m == old {
                            None
                        } else {
                            if m.hi > old.hi {
                                growths[s] += 1;
                                if growths[s] >= 3 {
                                    m.hi = INF;
                                    rep.unbounded_growth = true;
                                }
                            }
                            Some(m)
                        }
                    }
                };
                if let Some(m) = merged {
                    state[s] = Some(m);
                    work.push_back(s);
                }
            }
        }
    }
    rep
}

/// instruction boundaries of the code (for the run-time probe)
pub fn boundaries(code: &Bytecode, t: &Table) -> Option<Vec<bool>> {
    let ins = decode(&code.instructions, t).ok()?;
    let mut b = vec![false; code.instructions.len()];
    for i in ins {
        b[i.at] = true;
    }
    Some(b)
}
