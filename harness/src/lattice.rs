//! The integer boundary lattice shared by C06, C14 and C15.
pub const MAX_INT: i64 = (1i64 << 60) - 1;
pub const MIN_INT: i64 = -(1i64 << 60);

/// {0, ±1, ±2, ±7, ±2^k, ±(2^k ± 1) for k in ks, both range ends}, restricted to the 61-bit range
pub fn lattice(ks: impl Iterator<Item = u32>) -> Vec<i64> {
    let mut v: Vec<i64> = vec![0, 1, -1, 2, -2, 7, -7, MAX_INT, MIN_INT, MAX_INT - 1, MIN_INT + 1];
    for k in ks {
        let p = 1i128 << k;
        for d in [-1i128, 0, 1] {
            for s in [1i128, -1] {
                let x = s * (p + d);
                if x >= MIN_INT as i128 && x <= MAX_INT as i128 {
                    v.push(x as i64);
                }
            }
        }
    }
    v.sort();
    v.dedup();
    v
}

pub fn full_lattice() -> Vec<i64> {
    lattice(0..=60)
}

pub fn quick_lattice() -> Vec<i64> {
    lattice((0..=60).filter(|k| k % 4 == 0 || *k >= 58 || *k == 31 || *k == 32 || *k == 29 || *k == 30))
}

pub fn in_range(x: i128) -> bool {
    x >= MIN_INT as i128 && x <= MAX_INT as i128
}
