//! AST-level minimisation of a failing program, applied after proptest's tape shrinking:
//! greedy deletion / unwrapping of statements and simplification of expressions while the
//! failure (same class) persists.
use crate::ast::*;

/// all programs obtained from `p` by one simplification step
fn candidates(p: &BlockStmt) -> Vec<BlockStmt> {
    let mut out = Vec::new();
    block_cands(p, &mut |b| out.push(b));
    out
}

fn block_cands(b: &BlockStmt, emit: &mut dyn FnMut(BlockStmt)) {
    for i in 0..b.len() {
        // delete statement i
        let mut c = b.clone();
        c.remove(i);
        emit(c);
        // replace statement i by the statements nested in it
        for inner in nested_blocks(&b[i]) {
            let mut c = b.clone();
            c.splice(i..=i, inner);
            emit(c);
        }
        // simplify inside statement i
        stmt_cands(&b[i], &mut |s| {
            let mut c = b.clone();
            c[i] = s;
            emit(c);
        });
    }
}

fn nested_blocks(s: &Stmt) -> Vec<BlockStmt> {
    match s {
        Stmt::Block(b) => vec![b.clone()],
        Stmt::Expr(Expr::If { consequence, alternative, .. }) => {
            let mut v = vec![consequence.clone()];
            if let Some(a) = alternative {
                v.push(a.clone());
            }
            v
        }
        Stmt::Expr(Expr::While { body, .. }) => vec![body.clone()],
        _ => vec![],
    }
}

fn stmt_cands(s: &Stmt, emit: &mut dyn FnMut(Stmt)) {
    match s {
        Stmt::Let(n, e) => expr_cands(e, &mut |x| emit(Stmt::Let(n.clone(), x))),
        Stmt::Return(e) => expr_cands(e, &mut |x| emit(Stmt::Return(x))),
        Stmt::Expr(e) => expr_cands(e, &mut |x| emit(Stmt::Expr(x))),
        Stmt::Block(b) => block_cands(b, &mut |x| emit(Stmt::Block(x))),
        _ => {}
    }
}

fn expr_cands(e: &Expr, emit: &mut dyn FnMut(Expr)) {
    // replace by a sub-expression
    match e {
        Expr::Infix { left, right, operator } => {
            emit((**left).clone());
            emit((**right).clone());
            let (l, r, op) = (left.clone(), right.clone(), *operator);
            expr_cands(left, &mut |x| emit(Expr::Infix { left: Box::new(x), operator: op, right: r.clone() }));
            expr_cands(right, &mut |x| emit(Expr::Infix { left: l.clone(), operator: op, right: Box::new(x) }));
        }
        Expr::Prefix { right, operator } => {
            emit((**right).clone());
            let op = *operator;
            expr_cands(right, &mut |x| emit(Expr::Prefix { operator: op, right: Box::new(x) }));
        }
        Expr::If { condition, consequence, alternative } => {
            let (c, t, a) = (condition.clone(), consequence.clone(), alternative.clone());
            if alternative.is_some() {
                emit(Expr::If { condition: c.clone(), consequence: t.clone(), alternative: None });
            }
            emit(Expr::If { condition: Box::new(boolean(true)), consequence: t.clone(), alternative: a.clone() });
            expr_cands(condition, &mut |x| emit(Expr::If { condition: Box::new(x), consequence: t.clone(), alternative: a.clone() }));
            block_cands(consequence, &mut |x| emit(Expr::If { condition: c.clone(), consequence: x, alternative: a.clone() }));
            if let Some(alt) = alternative {
                block_cands(alt, &mut |x| emit(Expr::If { condition: c.clone(), consequence: t.clone(), alternative: Some(x) }));
            }
        }
        Expr::While { condition, body } => {
            let (c, b) = (condition.clone(), body.clone());
            expr_cands(condition, &mut |x| emit(Expr::While { condition: Box::new(x), body: b.clone() }));
            block_cands(body, &mut |x| emit(Expr::While { condition: c.clone(), body: x }));
        }
        Expr::Function { name, parameters, body } => {
            let (n, p) = (name.clone(), parameters.clone());
            block_cands(body, &mut |x| emit(Expr::Function { name: n.clone(), parameters: p.clone(), body: x }));
        }
        Expr::Call { left, arguments } => {
            for (i, a) in arguments.iter().enumerate() {
                if !matches!(a, Expr::Function { .. }) {
                    emit(a.clone());
                }
                let (l, args) = (left.clone(), arguments.clone());
                expr_cands(a, &mut |x| {
                    let mut v = args.clone();
                    v[i] = x;
                    emit(Expr::Call { left: l.clone(), arguments: v })
                });
            }
            if let Expr::Function { .. } = &**left {
                let args = arguments.clone();
                expr_cands(left, &mut |x| emit(Expr::Call { left: Box::new(x), arguments: args.clone() }));
            }
        }
        Expr::Assign { left, right } => {
            emit((**right).clone());
            let l = left.clone();
            expr_cands(right, &mut |x| emit(Expr::Assign { left: l.clone(), right: Box::new(x) }));
        }
        Expr::Array { values } => {
            for (i, a) in values.iter().enumerate() {
                emit(a.clone());
                let mut v = values.clone();
                v.remove(i);
                emit(Expr::Array { values: v });
                let vals = values.clone();
                expr_cands(a, &mut |x| {
                    let mut v = vals.clone();
                    v[i] = x;
                    emit(Expr::Array { values: v })
                });
            }
        }
        Expr::Index { left, index } => {
            let l = left.clone();
            expr_cands(index, &mut |x| emit(Expr::Index { left: l.clone(), index: Box::new(x) }));
        }
        Expr::Int { value } => {
            if *value != 0 && *value != 1 {
                emit(int(0));
                emit(int(1));
            }
        }
        Expr::String { value } => {
            if !value.is_empty() {
                emit(string(""));
            }
        }
        _ => {}
    }
    // replace a compound expression by a literal
    if !matches!(e, Expr::Int { .. } | Expr::Bool { .. } | Expr::String { .. } | Expr::Identifier(_) | Expr::Float { .. }) {
        emit(int(0));
    }
}

/// Greedy minimisation: `fails(p)` must be true for `start`
pub fn minimize(start: &BlockStmt, fails: &mut dyn FnMut(&BlockStmt) -> bool, max_tests: usize) -> BlockStmt {
    minimize_impl(start, fails, max_tests, true)
}

/// like `minimize`, without the U1 guard (for checks that judge memory safety only)
pub fn minimize_any(start: &BlockStmt, fails: &mut dyn FnMut(&BlockStmt) -> bool, max_tests: usize) -> BlockStmt {
    minimize_impl(start, fails, max_tests, false)
}

fn minimize_impl(start: &BlockStmt, fails: &mut dyn FnMut(&BlockStmt) -> bool, max_tests: usize, guard_u1: bool) -> BlockStmt {
    let mut cur = start.clone();
    let mut tests = 0;
    // U1: a reduced program must still end with an expression statement if the original did,
    // otherwise a metamorphic check could fail for a reason the documentation does not fix
    let ends_with_expr = |p: &BlockStmt| matches!(p.last(), Some(Stmt::Expr(_)));
    let keep_u1 = guard_u1 && ends_with_expr(start);
    loop {
        let mut progressed = false;
        let size = size_block(&cur);
        for c in candidates(&cur) {
            if size_block(&c) >= size && format!("{c:?}").len() >= format!("{cur:?}").len() {
                continue;
            }
            if keep_u1 && !ends_with_expr(&c) {
                continue;
            }
            tests += 1;
            if tests > max_tests {
                return cur;
            }
            if fails(&c) {
                cur = c;
                progressed = true;
                break;
            }
        }
        if !progressed {
            return cur;
        }
    }
}
