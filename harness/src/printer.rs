//! Source printer: canonical form (minimal parentheses from the documented precedence
//! table) and randomised layout (whitespace forms, comments, redundant parentheses,
//! optional separators, sugar) driven by a choice tape.
use crate::ast::*;
use crate::tape::Tape;

#[derive(Clone, Debug, PartialEq)]
enum Item {
    /// word-like token: identifier, keyword, number
    Word(String),
    /// punctuation / operator
    Sym(&'static str),
    /// string literal including its quotes
    Str(String),
    /// optional `;` or `,` (omitted only where the grammar allows)
    OptSep(&'static str),
    /// optional trailing `,` (never required)
    Trailing,
}

#[derive(Clone, Copy, PartialEq)]
enum Cx {
    /// a whole expression is expected (statement, parenthesised, argument, element, condition, index, initialiser)
    Whole,
    /// right side of an assignment
    AssignRhs,
    /// operand of a binary operator with the given level; `right` side or left
    Operand(u8, bool),
    /// operand of a prefix operator
    PrefixOperand,
}

pub struct Printer<'t, 'd> {
    items: Vec<Item>,
    layout: Option<&'t mut Tape<'d>>,
    /// how many layout decisions deviated from the canonical form
    pub deviations: usize,
    /// U7: parenthesise prefix expressions in operand position and non-atomic prefix operands (default).
    /// With `false` the text is printed "raw": it then denotes whatever the parser makes of it, which is only
    /// used for relations between parses (context independence, layout independence), never with an expected tree.
    pub u7: bool,
}

pub const WHITESPACE: [&str; 11] = [" ", "\t", "\n", "\u{000B}", "\u{000C}", "\r", "\u{0085}", "\u{200E}", "\u{200F}", "\u{2028}", "\u{2029}"];

pub fn escape_string(s: &str) -> String {
    let mut o = String::from("\"");
    for c in s.chars() {
        match c {
            '"' => o.push_str("\\\""),
            '\\' => o.push_str("\\\\"),
            '\n' => o.push_str("\\n"),
            '\t' => o.push_str("\\t"),
            c => o.push(c),
        }
    }
    o.push('"');
    o
}

pub fn float_literal(f: f64) -> String {
    let mut s = format!("{}", f);
    if !s.contains('.') {
        s.push_str(".0");
    }
    s
}

fn expr_level(e: &Expr, u7: bool) -> u8 {
    match e {
        Expr::Infix { operator, .. } => operator.level(),
        Expr::Assign { .. } => 1,
        // U7: a prefix expression in operand position is always parenthesised
        Expr::Prefix { .. } => {
            if u7 {
                0
            } else {
                10
            }
        }
        _ => 10,
    }
}

fn is_atom(e: &Expr) -> bool {
    !matches!(e, Expr::Infix { .. } | Expr::Assign { .. } | Expr::Prefix { .. })
}

impl<'t, 'd> Printer<'t, 'd> {
    pub fn canonical() -> Printer<'static, 'static> {
        Printer { items: Vec::new(), layout: None, deviations: 0, u7: true }
    }
    pub fn with_layout(t: &'t mut Tape<'d>) -> Printer<'t, 'd> {
        Printer { items: Vec::new(), layout: Some(t), deviations: 0, u7: true }
    }
    fn flip(&mut self, num: u32) -> bool {
        match self.layout.as_mut() {
            Some(t) => {
                let b = t.maybe(num);
                if b {
                    self.deviations += 1;
                }
                b
            }
            None => false,
        }
    }
    fn word(&mut self, s: &str) {
        self.items.push(Item::Word(s.to_string()));
    }
    fn sym(&mut self, s: &'static str) {
        self.items.push(Item::Sym(s));
    }

    pub fn program(&mut self, b: &BlockStmt) {
        for s in b {
            self.stmt(s);
        }
    }

    fn block(&mut self, b: &BlockStmt) {
        self.sym("{");
        for s in b {
            self.stmt(s);
        }
        self.sym("}");
    }

    fn stmt(&mut self, s: &Stmt) {
        match s {
            Stmt::Let(n, e) => {
                self.word("stel");
                self.word(n);
                self.sym("=");
                self.expr(e, Cx::Whole);
            }
            Stmt::Return(e) => {
                self.word("antwoord");
                self.expr(e, Cx::Whole);
            }
            Stmt::Expr(e) => self.expr(e, Cx::Whole),
            Stmt::Block(b) => self.block(b),
            Stmt::Break => self.word("stop"),
            Stmt::Continue => self.word("volgende"),
        }
        self.items.push(Item::OptSep(";"));
    }

    fn list(&mut self, v: &[Expr]) {
        for (i, e) in v.iter().enumerate() {
            self.expr(e, Cx::Whole);
            if i + 1 < v.len() {
                self.items.push(Item::OptSep(","));
            } else {
                self.items.push(Item::Trailing);
            }
        }
    }

    fn expr(&mut self, e: &Expr, cx: Cx) {
        // does the context force parentheses?
        let need = match cx {
            Cx::Whole => false,
            Cx::AssignRhs => expr_level(e, self.u7) <= 1 && !is_atom(e) && !matches!(e, Expr::Prefix { .. }),
            Cx::Operand(level, right) => {
                let l = expr_level(e, self.u7);
                if right {
                    l <= level
                } else {
                    l < level
                }
            }
            Cx::PrefixOperand => self.u7 && !is_atom(e),
        };
        // function literals may never be wrapped into an infix operand; they only occur as atoms elsewhere
        let redundant = !need && self.u7 && self.flip(10);
        if need || redundant {
            self.sym("(");
            self.expr_inner(e, Cx::Whole);
            self.sym(")");
        } else {
            self.expr_inner(e, cx);
        }
    }

    fn expr_inner(&mut self, e: &Expr, cx: Cx) {
        match e {
            Expr::Int { value } => self.word(&format!("{value}")),
            Expr::Float { value } => self.word(&float_literal(*value)),
            Expr::Bool { value } => self.word(if *value { "ja" } else { "nee" }),
            Expr::String { value } => self.items.push(Item::Str(escape_string(value))),
            Expr::Identifier(n) => self.word(n),
            Expr::Infix { left, operator, right } => {
                self.expr(left, Cx::Operand(operator.level(), false));
                self.sym(operator.text());
                self.expr(right, Cx::Operand(operator.level(), true));
            }
            Expr::Prefix { operator, right } => {
                self.sym(operator.text());
                self.expr(right, Cx::PrefixOperand);
            }
            Expr::Assign { left, right } => {
                // sugar: a = a op e  <=>  a op= e (only where a whole expression or an assignment's right side is expected)
                if let (Expr::Identifier(a), Expr::Infix { left: l2, operator, right: r2 }) = (&**left, &**right) {
                    if matches!(&**l2, Expr::Identifier(b) if a == b)
                        && matches!(cx, Cx::Whole | Cx::AssignRhs)
                        && self.u7
                        && self.flip(128)
                    {
                        self.word(a);
                        self.sym(operator.text());
                        self.sym("=");
                        self.expr(r2, Cx::Whole);
                        return;
                    }
                }
                self.expr(left, Cx::Operand(10, false));
                self.sym("=");
                self.expr(right, Cx::AssignRhs);
            }
            Expr::If { condition, consequence, alternative } => {
                self.word("als");
                self.expr(condition, Cx::Whole);
                self.block(consequence);
                if let Some(alt) = alternative {
                    self.word("anders");
                    let single_if = alt.len() == 1 && matches!(&alt[0], Stmt::Expr(Expr::If { .. }));
                    if single_if && !self.flip(40) {
                        if let Stmt::Expr(inner) = &alt[0] {
                            // `anders als …`: the nested if is parsed as a statement of its own
                            self.expr_inner(inner, Cx::Whole);
                        }
                    } else {
                        self.block(alt);
                    }
                }
            }
            Expr::While { condition, body } => {
                self.word("zolang");
                self.expr(condition, Cx::Whole);
                self.block(body);
            }
            Expr::Function { name, parameters, body } => {
                self.word("functie");
                if !name.is_empty() {
                    self.word(name);
                }
                self.sym("(");
                for (i, p) in parameters.iter().enumerate() {
                    self.word(p);
                    if i + 1 < parameters.len() {
                        self.items.push(Item::OptSep(","));
                    } else {
                        self.items.push(Item::Trailing);
                    }
                }
                self.sym(")");
                self.block(body);
            }
            Expr::Call { left, arguments } => {
                self.expr(left, Cx::Operand(10, false));
                self.sym("(");
                self.list(arguments);
                self.sym(")");
            }
            Expr::Array { values } => {
                self.sym("[");
                self.list(values);
                self.sym("]");
            }
            Expr::Index { left, index } => {
                self.expr(left, Cx::Operand(10, false));
                self.sym("[");
                self.expr(index, Cx::Whole);
                self.sym("]");
            }
        }
    }

    /// Resolves optional separators and joins the tokens
    pub fn finish(&mut self) -> String {
        let items = std::mem::take(&mut self.items);
        // pass 1: resolve optional separators into real tokens
        let mut toks: Vec<Item> = Vec::new();
        for (i, it) in items.iter().enumerate() {
            match it {
                Item::OptSep(sep) => {
                    // the next real token decides whether the separator may be dropped
                    let next = items[i + 1..].iter().find_map(|x| match x {
                        Item::Word(w) => Some(w.clone()),
                        Item::Sym(s) => Some(s.to_string()),
                        Item::Str(_) => Some("\"".to_string()),
                        _ => None,
                    });
                    let must_keep = matches!(next.as_deref(), Some("(") | Some("[") | Some("-"));
                    let keep = if self.layout.is_some() { must_keep || !self.flip(128) } else { true };
                    if keep {
                        toks.push(Item::Sym(sep));
                    }
                }
                Item::Trailing => {
                    if self.flip(30) {
                        toks.push(Item::Sym(","));
                    }
                }
                other => toks.push(other.clone()),
            }
        }
        // pass 2: join
        let mut out = String::new();
        if self.layout.is_some() {
            self.gap(&mut out, None, toks.first(), true);
        }
        for (i, t) in toks.iter().enumerate() {
            out.push_str(text_of(t));
            let next = toks.get(i + 1);
            if next.is_some() {
                self.gap(&mut out, Some(t), next, false);
            } else if self.layout.is_some() {
                self.gap(&mut out, Some(t), None, true);
            }
        }
        out
    }

    fn gap(&mut self, out: &mut String, a: Option<&Item>, b: Option<&Item>, edge: bool) {
        let t = match self.layout.as_mut() {
            None => {
                if !edge {
                    out.push(' ');
                }
                return;
            }
            Some(t) => t,
        };
        let needs = match (a, b) {
            (Some(a), Some(b)) => needs_space(a, b),
            _ => false,
        };
        match t.below(8) {
            0 if !needs => {
                self.deviations += 1;
            }
            0 | 1 | 2 | 3 => {
                if edge {
                    return;
                }
                out.push(' ')
            }
            4 | 5 => {
                self.deviations += 1;
                let n = 1 + t.below(3);
                for _ in 0..n {
                    out.push_str(t.pick_str(&WHITESPACE));
                }
            }
            6 => {
                self.deviations += 1;
                out.push('\n');
            }
            _ => {
                self.deviations += 1;
                // line comment; its text may contain anything but a line feed
                const COMMENTS: [&str; 9] = ["", " opmerking", " stel x = 1; )", "// /* \"", " é€ {", "\t}", " C:\\pad\\", "\\", " \\\\\\"];
                let after_slash = a.map(|a| text_of(a).ends_with('/')).unwrap_or(false);
                if needs || after_slash || !t.maybe(128) {
                    out.push(' ');
                }
                out.push_str("//");
                out.push_str(t.pick_str(&COMMENTS));
                out.push('\n');
            }
        }
    }
}

fn text_of(i: &Item) -> &str {
    match i {
        Item::Word(w) => w,
        Item::Sym(s) => s,
        Item::Str(s) => s,
        _ => "",
    }
}

/// must the two tokens be separated to lex as written?
fn needs_space(a: &Item, b: &Item) -> bool {
    let (x, y) = (text_of(a), text_of(b));
    let wordish = |i: &Item| matches!(i, Item::Word(_));
    if wordish(a) && wordish(b) {
        return true;
    }
    // a number followed by `.`, or `.` followed by a number, would change the literal
    if (wordish(a) && y.starts_with('.')) || (x.ends_with('.') && wordish(b)) {
        return true;
    }
    let last = x.chars().last().unwrap_or(' ');
    let first = y.chars().next().unwrap_or(' ');
    if matches!(last, '=' | '!' | '<' | '>') && first == '=' {
        return true;
    }
    if last == '/' && first == '/' {
        return true;
    }
    if (last == '&' && first == '&') || (last == '|' && first == '|') {
        return true;
    }
    false
}

pub fn print_canonical(b: &BlockStmt) -> String {
    let mut p = Printer::canonical();
    p.program(b);
    p.finish()
}

/// returns (text, number of deviations from the canonical layout)
pub fn print_layout(b: &BlockStmt, t: &mut Tape) -> (String, usize) {
    let mut p = Printer::with_layout(t);
    p.program(b);
    let text = p.finish();
    (text, p.deviations)
}

/// prints one expression canonically (used by generators that build text directly)
pub fn print_expr(e: &Expr) -> String {
    print_canonical(&vec![Stmt::Expr(e.clone())]).trim_end_matches(';').trim().to_string()
}

/// canonical text without the U7 parentheses (see `Printer::u7`)
pub fn print_raw(b: &BlockStmt) -> String {
    let mut p = Printer::canonical();
    p.u7 = false;
    p.program(b);
    p.finish()
}

/// raw text (no U7 parentheses, no redundant parentheses) under a random layout
pub fn print_raw_layout(b: &BlockStmt, t: &mut Tape) -> String {
    let mut p = Printer::with_layout(t);
    p.u7 = false;
    p.program(b);
    p.finish()
}
