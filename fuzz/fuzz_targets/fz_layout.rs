#![no_main]
// C07: bytes -> (syntax tree, layout choices); parse(layout(tree)) == tree
mod common;
use libfuzzer_sys::fuzz_target;
use nlv::printer::{print_canonical, print_layout};
use nlv::tape::Tape;

fuzz_target!(|data: &[u8]| {
    common::init();
    let (prog, used) = nlv::props::c07::gen_syntax(data);
    let expect = format!("{prog:?}");
    let mut texts = vec![print_canonical(&prog)];
    let mut t = Tape::new(&data[used.min(data.len())..]);
    texts.push(print_layout(&prog, &mut t).0);
    for text in texts {
        let case = serde_json::json!({"text": text, "expect_debug": expect});
        if let Some(v) = nlv::props::c07::replay(&case) {
            common::report(v);
        }
    }
});
