#![no_main]
// C01 / C03 / C04: bytes -> the structured program generator -> differential against the reference interpreter + heap ledger
mod common;
use libfuzzer_sys::fuzz_target;
use nlv::diff::{diff_program_budget, Verdict};
use nlv::gen::{gen_program, Profile};

fuzz_target!(|data: &[u8]| {
    common::init();
    if data.is_empty() {
        return;
    }
    let profile = match data[0] % 4 {
        0 => Profile::general(),
        1 => Profile::alloc(),
        2 => Profile::calls(),
        _ => Profile::control(),
    };
    let (prog, _) = gen_program(&data[1..], &profile);
    let out = diff_program_budget(&prog, 20_000, 200_000);
    if let Verdict::Violation { class, expected, observed } = out.verdict {
        common::report(nlv::report::Violation { property: "C01".into(), driver: "fz_prog".into(), class, case: serde_json::json!({"src": out.src}), expected, observed });
    }
    if let Some(o) = &out.obs {
        if o.heap.leaked > 0 || o.heap.left_managed > 0 || o.heap.dead_in_result > 0 {
            common::report(nlv::report::Violation {
                property: "C04".into(),
                driver: "fz_prog".into(),
                class: "leak".into(),
                case: serde_json::json!({"src": out.src}),
                expected: "every object released exactly once".into(),
                observed: format!("{:?}", o.heap),
            });
        }
    }
});
