#![no_main]
// C02 / C05: bytes -> indices into the token vocabulary -> text; if it compiles: verifier on all paths + probed run
mod common;
use libfuzzer_sys::fuzz_target;
use nlv::tape::Tape;

const VOCAB: [&str; 60] = [
    "als", "anders", "antwoord", "functie", "zolang", "stel", "ja", "nee", "stop", "volgende", "<=", ">=", "==", "!=", "&&", "||", "=", ";", ",", "(", ")", "{", "}", "[", "]", "!", "<", ">", "-",
    "+", "*", "/", "%", "a", "b", "f", "x", "0", "1", "2", "7", "1.5", "\"s\"", "print", "lengte", "int", "string", "type", "bool", "float", "{", "}", "(", ")", ";", "a", "b", "f", "\n", "g",
];

thread_local! { static TABLE: nlv::bytecode::Table = nlv::bytecode::Table::load(); }

fuzz_target!(|data: &[u8]| {
    common::init();
    let mut t = Tape::new(data);
    let mut text = String::new();
    while !t.exhausted() {
        text.push_str(t.pick_str(&VOCAB));
        text.push(' ');
    }
    let case = serde_json::json!({"text": text});
    if let Some(v) = nlv::props::c05::replay(&case) {
        common::report(v);
    }
    let r = TABLE.with(|tb| nlv::props::c02::check_source(&text, tb));
    if let Err(f) = r {
        common::report(nlv::report::Violation { property: "C02".into(), driver: "fz_tokens".into(), class: f.0, case: f.1, expected: f.2, observed: f.3 });
    }
});
