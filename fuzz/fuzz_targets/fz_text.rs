#![no_main]
// C05 (and C02 as a tripwire): any text yields a value or one of the five error kinds
mod common;
use libfuzzer_sys::fuzz_target;

fuzz_target!(|data: &[u8]| {
    common::init();
    let text = String::from_utf8_lossy(data).to_string();
    let case = serde_json::json!({"text": text});
    if let Some(v) = nlv::props::c05::replay(&case) {
        common::report(v);
    }
});
