// shared by the fuzz targets: report an oracle violation as a replay file + VIOLATION line, then crash
use nlv::report::{hash_str, verif_dir, Violation};

pub fn init() {
    use std::sync::Once;
    static ONCE: Once = Once::new();
    ONCE.call_once(|| {
        nlv::engine::install_panic_hook();
        nlv::engine::install_gc_observer();
    });
}

pub fn report(v: Violation) -> ! {
    let dir = verif_dir();
    let _ = std::fs::create_dir_all(dir.join("replays"));
    let name = format!("replays/{}-fuzz-{:016x}.json", v.property, hash_str(&format!("{}{}", v.class, v.case)));
    let path = dir.join(&name);
    let _ = std::fs::write(&path, serde_json::to_string_pretty(&v.to_json()).unwrap());
    println!("VIOLATION property={} replay={}", v.property, path.display());
    println!("  driver={} class={}", v.driver, v.class);
    println!("  expected={}", v.expected);
    println!("  observed={}", v.observed);
    // libFuzzer keeps the input as a crash artifact as well
    std::process::abort()
}
